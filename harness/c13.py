"""C13 — status variables, constants and alarms answer as a reference model predicts."""
from __future__ import annotations

import math

import coqlit as L
import common
import gemrig
from c12 import idl, idsl, plain

import secsgem.gem
import secsgem.secs
from secsgem.secs.variables import F8, I4, U4

ALCD = secsgem.secs.data_items.ALCD


def num_lit(v):
    if v is None:
        return "None"
    if isinstance(v, float):
        if math.isnan(v):
            return "NNaN"
        if math.isinf(v):
            return f"(NInf {L.bool_(v > 0)})"
        if v != int(v):
            raise ValueError(f"non-integral float {v}")
        v = int(v)
    return f"(NInt {L.z(int(v))})"


def onum(v):
    return "None" if v is None or v == "" else f"(Some {num_lit(v)})"


SV_DEF = [(10, "sv10", "mm", 5), ("sx", "svx", "", 7), (12, "sv12", "s", 0)]
EC_DEF = [(10, "ec10", "mm", 0, 100, 50, U4, 50), ("ex", "ecx", "V", -5.0, 5.0, 0.0, F8, 1.0), (30, "ec30", "", None, None, 0, I4, 3), (40, "ec40", "A", 0.0, None, 1.0, F8, 2.0)]
AL_DEF = [(1, "al1", "text1", 1), (2, "al2", "text2", 2), (3, "al3", "", 6)]


def alcd_z(v):
    # the zero-length ALCD of an alarm that does not exist is -1 in the reference (Spec.E5Data.NO_ALCD)
    if v is None or (hasattr(v, "__len__") and len(v) == 0):
        return -1
    return int(v[0]) if isinstance(v, (bytes, bytearray, list)) else int(v)


class StoreEquipment(secsgem.gem.GemEquipmentHandler):
    """An equipment that keeps the values of its constants in a store of its own (the documented use of on_ec_value_request /
    on_ec_value_update): EquipmentConstant.value is then only the declared default, not the current value."""

    def __init__(self, *args, **kw):
        super().__init__(*args, **kw)
        self.ec_store = {}

    def on_ec_value_request(self, _ecid, equipment_constant):
        return equipment_constant.value_type(self.ec_store[equipment_constant.ecid])

    def on_ec_value_update(self, _ecid, equipment_constant, value):
        self.ec_store[equipment_constant.ecid] = value


class Equip:
    def __init__(self, store=False):
        self.store = store
        self.rig = gemrig.GemRig(init="ONLINE", sub="REMOTE", handler_cls=StoreEquipment if store else None)
        h = self.rig.handler
        # the library's own AlarmsEnabled / AlarmsSet status variables are kept aside and put back for the requests that ask for them
        self.alarm_svs = {k: h.status_variables[k] for k in (1004, 1005)}
        h.status_variables.clear()
        h.equipment_constants.clear()
        for i, n, u, v in SV_DEF:
            sv = secsgem.gem.StatusVariable(i, n, u, U4, False)
            sv.value = v
            h.status_variables[i] = sv
        for i, n, u, lo, hi, df, ty, v in EC_DEF:
            ec = secsgem.gem.EquipmentConstant(i, n, lo, hi, df, u, ty, store)
            if store:
                h.ec_store[i] = v            # the current value lives in the equipment's own store, ec.value stays the default
            else:
                ec.value = v
            h.equipment_constants[i] = ec
        for i, n, t, code in AL_DEF:
            h.alarms[i] = secsgem.gem.Alarm(i, n, t, code, 100 + i, 200 + i)
        self.rig.establish()
        self.rig.new_frames()

    def init_lit(self):
        svs = ";".join(f"({idl(i)}, {{| sv_name := {L.string(n)}; sv_unit := {L.string(u)}; sv_value := {L.z(v)} |}})" for i, n, u, v in SV_DEF)
        ecs = ";".join(f"({idl(i)}, {{| ec_name := {L.string(n)}; ec_unit := {L.string(u)}; ec_min := {onum(lo)}; ec_max := {onum(hi)}; ec_def := {num_lit(df)}; ec_value := {num_lit(v)} |}})"
                       for i, n, u, lo, hi, df, _ty, v in EC_DEF)
        als = ";".join(f"({idl(i)}, {{| al_code := {L.z(code)}; al_text := {L.string(t)}; al_enabled := false; al_set := false |}})" for i, _n, t, code in AL_DEF)
        return "{| svs := [" + svs + "]; ecs := [" + ecs + "]; alarms := [" + als + "] |}"

    def snapshot(self):
        h = self.rig.handler
        ecv = "[" + ";".join(f"({idl(k)}, {num_lit(h.ec_store[k] if self.store else c.value)})" for k, c in h.equipment_constants.items()) + "]"
        al = "[" + ";".join(f"({idl(k)}, ({L.bool_(bool(a.enabled))}, {L.bool_(bool(a.set))}))" for k, a in h.alarms.items()) + "]"
        sv = "[" + ";".join(f"({idl(k)}, {L.z(int(s.value))})" for k, s in h.status_variables.items()) + "]"
        return ecv, al, sv

    def request(self, s, f, value=None):
        rig = self.rig
        fn = rig.sf.function(s, f)
        rig.send_primary(s, f, (fn(value) if value is not None else fn()).encode())
        frames = [b for b in rig.new_frames() if b.header.stream == s]
        rep = [b for b in frames if b.header.function == f + 1]
        if len(rep) == 1:
            return rig.sf.decode(gemrig.HsmsMessage(rep[0].header, rep[0].data))
        return None

    def do(self, op):
        kind = op[0]
        h = self.rig.handler
        if kind == "req_sv":
            r = self.request(1, 3, list(op[1]))
            out = "DAbort" if r is None else "(DValues [" + ";".join("None" if isinstance(v, list) else f"(Some {L.z(int(v))})" for v in r.get()) + "])"
            return f"(DReqSV {idsl(op[1])})", out
        if kind == "name_sv":
            r = self.request(1, 11, list(op[1]))
            out = "DAbort" if r is None else "(DNames [" + ";".join(f"({idl(e['SVID'])}, {L.string(e['SVNAME'])}, {L.string(e['UNITS'])})" for e in r.get()) + "])"
            return f"(DNameSV {idsl(op[1])})", out
        if kind == "req_ec":
            r = self.request(2, 13, list(op[1]))
            out = "DAbort" if r is None else "(DConsts [" + ";".join("None" if isinstance(v, list) else f"(Some {num_lit(v)})" for v in r.get()) + "])"
            return f"(DReqEC {idsl(op[1])})", out
        if kind == "name_ec":
            r = self.request(2, 29, list(op[1]))
            if r is None:
                out = "DAbort"
            else:
                rows = []
                for e in r.get():
                    if e["ECNAME"] == "" and e["ECDEF"] == "":
                        rows.append(f"({idl(e['ECID'])}, {L.string('')}, None, {L.string(e['UNITS'])})")
                    else:
                        rows.append(f"({idl(e['ECID'])}, {L.string(e['ECNAME'])}, Some ({onum(e['ECMIN'])}, {onum(e['ECMAX'])}, {num_lit(e['ECDEF'])}), {L.string(e['UNITS'])})")
                out = "(DConstNames [" + ";".join(rows) + "])"
            return f"(DNameEC {idsl(op[1])})", out
        if kind == "set_ec":
            types = {i: ty for i, *_r, ty, _v in EC_DEF}
            data = [{"ECID": i, "ECV": types.get(i, U4)(v)} for i, v in op[1]]
            r = self.request(2, 15, data)
            out = "DAbort" if r is None else f"(DAck {L.z(int(r.get()))})"
            return "(DSetEC [" + ";".join(f"({idl(i)}, {num_lit(v)})" for i, v in op[1]) + "])", out
        if kind == "al_enable":
            # op[2]: True/False (ALED 128 / 0) or a raw ALED byte 0..128; bit 8 decides (E5), 1..127 disable like 0.
            # 129..255 are documented as "not used" by the library and are not generated (DESIGN 0.6)
            aled = (128 if op[2] else 0) if isinstance(op[2], bool) else int(op[2])
            r = self.request(5, 3, {"ALED": aled, "ALID": op[1]})
            out = "DAbort" if r is None else f"(DAck {L.z(int(r.get()))})"
            return f"(DAlarmEnable {idl(op[1])} {L.bool_(aled >= 128)})", out
        if kind in ("list_al", "list_enabled"):
            r = self.request(5, 5, list(op[1])) if kind == "list_al" else self.request(5, 7)
            out = "DAbort" if r is None else "(DAlarms [" + ";".join(f"({idl(e['ALID'])}, {L.z(alcd_z(e['ALCD']))}, {L.string(e['ALTX'])})" for e in r.get()) + "])"
            return (f"(DListAlarms {idsl(op[1])})" if kind == "list_al" else "DListEnabled"), out
        if kind in ("set_alarm", "clear_alarm"):
            fn = h.set_alarm if kind == "set_alarm" else h.clear_alarm
            th, holder = self.rig.call(lambda: fn(op[1]))
            th.join(10)
            if not self.rig.settle():
                raise RuntimeError("rig did not settle")
            rep = [b for b in self.rig.new_frames() if (b.header.stream, b.header.function) == (5, 1)]
            if "raised" in holder:
                out = "DAbort"
            elif rep:
                v = self.rig.sf.decode(gemrig.HsmsMessage(rep[0].header, rep[0].data)).get()
                out = f"(DReport {L.z(int(v['ALCD']))} {idl(v['ALID'])})"
            else:
                out = "DNone"
            return (f"(DSetAlarm {idl(op[1])})" if kind == "set_alarm" else f"(DClearAlarm {idl(op[1])})"), out
        if kind == "alarm_svs":
            h.status_variables.update(self.alarm_svs)
            try:
                r = self.request(1, 3, [1004, 1005])
            finally:
                for k in self.alarm_svs:
                    h.status_variables.pop(k, None)
            if r is None:
                out = "DAbort"
            else:
                en, st = r.get()
                out = "(DAlarmLists " + idsl(list(en)) + " " + idsl(list(st)) + ")"
            return "DReqAlarmSVs", out
        if kind in ("set_alarm_asked", "clear_alarm_asked"):
            # the host asks for the alarm (S5F5, S5F7, the AlarmsSet status variable) BEFORE it answers the S5F1: the change has happened,
            # the answers show it.  Only for an enabled, existing alarm whose state changes (an S5F1 is on its way); else like the plain op
            a = h.alarms.get(op[1])
            setting = kind == "set_alarm_asked"
            if a is None or not a.enabled or bool(a.set) == setting:
                return self.do(("set_alarm" if setting else "clear_alarm", op[1]))
            fn = h.set_alarm if setting else h.clear_alarm
            responder = self.rig.responders.pop((5, 1))
            try:
                th, holder = self.rig.call(lambda: fn(op[1]), wait_for=(5, 1))
                rep = [b for b in self.rig.new_frames() if (b.header.stream, b.header.function) == (5, 1)]
                if rep:
                    v = self.rig.sf.decode(gemrig.HsmsMessage(rep[0].header, rep[0].data)).get()
                    first = (f"(DSetAlarm {idl(op[1])})" if setting else f"(DClearAlarm {idl(op[1])})", f"(DReport {L.z(int(v['ALCD']))} {idl(v['ALID'])})")
                else:
                    first = (f"(DSetAlarm {idl(op[1])})" if setting else f"(DClearAlarm {idl(op[1])})", "DNone")
                asked = [self.do(("list_al", [op[1]])), self.do(("list_enabled", [])), self.do(("alarm_svs",))]
            finally:
                self.rig.responders[(5, 1)] = responder
                if (5, 1) in self.rig.pending:
                    self.rig.resolve((5, 1), lambda system: gemrig.data_frame(5, 2, system, b"\x21\x01\x00"))
            th.join(10)
            if th.is_alive() or not self.rig.settle():
                raise RuntimeError("set_alarm/clear_alarm did not return after the S5F2")
            self.rig.new_frames()
            return [first] + asked
        if kind == "update_sv":
            if op[1] in h.status_variables:
                h.status_variables[op[1]].value = op[2]
            return f"(DUpdateSV {idl(op[1])} {L.z(op[2])})", "DNone"
        raise ValueError(kind)


def run_history(ops, store=False):
    eq = Equip(store)
    steps = []
    try:
        for op in ops:
            pairs = eq.do(op)
            if isinstance(pairs, tuple):
                pairs = [pairs]
            ecv, al, sv = eq.snapshot()
            for lit, out in pairs:
                steps.append("{| d_op := " + lit + "; d_out := " + out + "; d_ecv := " + ecv + "; d_al := " + al + "; d_sv := " + sv + " |}")
        init = eq.init_lit()
    finally:
        eq.rig.stop()
    return init, steps


def case_lit(ops, store=False):
    init, steps = run_history(ops, store)
    return "{| d_init := " + init + ";\n   d_steps := [" + ";\n   ".join(steps) + "] |}"


SVIDS = [10, "sx", 12, 99, "zz"]
ECIDS = [10, "ex", 30, 40, 99]
ALIDS = [1, 2, 3]
NAN, INF = float("nan"), float("inf")
EC_VALUES = {10: [0, 100, 101, 1, 50, 99, 4000], "ex": [-5.0, 5.0, 6.0, -6.0, 0.0, NAN, 1e300, -1e300], 30: [-7, 0, 123456, 2147483647], 40: [0.0, -1.0, 10.0, NAN, 1e300, -1e300], 99: [1, 5]}


def id_list(rnd, pool, allow_empty=True):
    k = rnd.choice([0, 1, 1, 2, 2, 3, 4]) if allow_empty else rnd.choice([1, 1, 2, 3])
    return [rnd.choice(pool) for _ in range(k)]


def rand_ops(rnd, n):
    ops = []
    for _ in range(n):
        c = rnd.random()
        if c < 0.10:
            ops.append(("req_sv", id_list(rnd, SVIDS)))
        elif c < 0.16:
            ops.append(("name_sv", id_list(rnd, SVIDS)))
        elif c < 0.28:
            ops.append(("req_ec", id_list(rnd, ECIDS)))
        elif c < 0.34:
            ops.append(("name_ec", id_list(rnd, ECIDS)))
        elif c < 0.58:
            ids = [rnd.choice(ECIDS if rnd.random() < 0.15 else ECIDS[:-1]) for _ in range(rnd.choice([0, 1, 1, 2, 2, 3]))]
            ops.append(("set_ec", [(i, rnd.choice(EC_VALUES[i])) for i in ids]))
        elif c < 0.68:
            ops.append(("al_enable", rnd.choice(ALIDS + [7]), rnd.choice([True, True, True, True, False, False, 1, 127, 64, 128])))
        elif c < 0.74:
            ops.append(("list_al", id_list(rnd, ALIDS + ([7, 9] if rnd.random() < 0.35 else []))))
        elif c < 0.78:
            ops.append(("list_enabled", []))
        elif c < 0.82:
            ops.append(("alarm_svs",))
        elif c < 0.88:
            ops.append(("set_alarm" if rnd.random() < 0.7 else "set_alarm_asked", rnd.choice(ALIDS + ([7] if rnd.random() < 0.1 else []))))
        elif c < 0.95:
            ops.append(("clear_alarm" if rnd.random() < 0.7 else "clear_alarm_asked", rnd.choice(ALIDS)))
        else:
            ops.append(("update_sv", rnd.choice([10, "sx", 12]), rnd.randint(0, 9999)))
    return ops


DIRECTED = [
    # the host asks while the S5F1 is still unanswered
    [("al_enable", 1, True), ("set_alarm_asked", 1), ("clear_alarm_asked", 1), ("al_enable", 2, True), ("set_alarm_asked", 2), ("set_alarm_asked", 1), ("clear_alarm_asked", 2)],
    [("req_sv", []), ("req_sv", [12, 99, 10, 10, "sx"]), ("name_sv", []), ("name_sv", ["zz", 10]), ("update_sv", 10, 77), ("req_sv", [10])],
    [("req_ec", []), ("name_ec", []), ("name_ec", [99, "ex", 30]), ("set_ec", [(10, 100), ("ex", -5.0)]), ("req_ec", [10, "ex", 99]), ("set_ec", [(10, 101)]), ("set_ec", [(10, 1), (99, 1)]),
     ("set_ec", [(99, 1), (10, 2)]), ("set_ec", [(10, 3), ("ex", 6.0)]), ("set_ec", [("ex", 6.0), (10, 3)]), ("req_ec", [10, "ex"]), ("set_ec", [(10, 5), (10, 6)]), ("req_ec", [10])],
    # values that are neither below nor above a bound
    [("set_ec", [(10, 20), ("ex", NAN)]), ("req_ec", [10, "ex"]), ("set_ec", [(40, NAN)]), ("set_ec", [(40, 1e300)]), ("set_ec", [("ex", 1e300)]), ("set_ec", [("ex", -1e300)]), ("req_ec", [])],
    [("list_al", []), ("list_enabled", []), ("set_alarm", 1), ("al_enable", 1, True), ("set_alarm", 1), ("clear_alarm", 1), ("set_alarm", 1), ("list_al", [1, 2]), ("list_enabled", []),
     ("alarm_svs",), ("al_enable", 1, False), ("clear_alarm", 1), ("set_alarm", 2), ("al_enable", 2, True), ("alarm_svs",), ("al_enable", 3, True), ("set_alarm", 3), ("alarm_svs",), ("clear_alarm", 2), ("clear_alarm", 2), ("al_enable", 7, True), ("list_al", [3, 1, 1])],
    # S5F5 naming alarms that do not exist: the known ones are still listed, the unknown ones come back with zero-length ALCD/ALTX
    [("set_alarm", 2), ("list_al", [7]), ("alarm_svs",), ("list_al", [1, 7, 2]), ("list_al", [9, 2, 2, 7]), ("list_al", []), ("list_enabled", [])],
    # ALED bytes with bit 8 clear disable, whatever the other bits
    [("al_enable", 1, 1), ("list_enabled", []), ("set_alarm", 1), ("al_enable", 2, True), ("al_enable", 2, 127), ("list_enabled", []), ("set_alarm", 2), ("al_enable", 1, 128), ("list_enabled", []), ("clear_alarm", 1)],
]


def gen_cases(rnd, tier):
    cases = [("directed", d) for d in DIRECTED]
    # the same histories against an equipment that keeps the constants' values in its own store (callbacks): the current value is
    # what the store holds, EquipmentConstant.value only the default
    cases += [("directed+store", d) for d in DIRECTED if any(op[0] == "set_ec" for op in d)]
    cases.append(("directed+store", [("set_ec", [(10, 70)]), ("req_ec", [10]), ("set_ec", [(10, 50)]), ("req_ec", [10]), ("set_ec", [(10, 60), (30, 0)]), ("set_ec", [(10, 50), (30, 5)]), ("req_ec", []),
                                     ("set_ec", [("ex", 0.0), (40, 1.0)]), ("req_ec", []), ("set_ec", [(30, 0), (10, 101)]), ("req_ec", [])]))
    n = 50 if tier == "quick" else 400
    for k in range(n):
        cases.append(("random+store" if k % 3 == 2 else "random", rand_ops(rnd, rnd.randint(2, 14 if tier == "quick" else 40))))
    return cases


HEADER = "From SG Require Import Base.Prelude Spec.E5Reports Spec.E5Data Model.EquipData Run.C13Run.\nOpen Scope Z_scope.\nOpen Scope string_scope.\n"


def evaluate(lits, prefix, shard=40):
    shards, maps = [], []
    idx = list(range(len(lits)))
    for s in range(0, len(idx), shard):
        part = idx[s: s + shard]
        maps.append(part)
        shards.append("Definition cs : list c13case := [\n" + ";\n".join(lits[i] for i in part) + "\n].\nEval vm_compute in run_c13 cs.\n")
    outs = common.coq_eval_shards(prefix, HEADER, shards)
    bad, skipped, checked, errors = [], 0, 0, []
    for part, (ok, text) in zip(maps, outs):
        parsed = common.parse_triples(text) if ok else None
        if parsed is None:
            errors.append(text[-800:])
            continue
        b, sk, ch = parsed
        skipped += sk
        checked += ch
        bad.extend((part[i], m, s) for i, m, s in b)
    return bad, {"skipped_unmodelled": skipped, "spec_checked": checked, "eval_errors": errors, "observed": len(lits)}


SPEC_CODES = {31: "the S2F16 acknowledge differs from what E5 assigns (EAC 0 only when all ids are known and all values in range)",
              32: "the reply does not list exactly the requested items in request order with their current values",
              33: "S5F1 was not sent exactly for a set/clear change of an enabled alarm", 34: "the alarm list / S5F4 acknowledge differs from the reference",
              35: "S2F15 changed the constants differently from all-or-nothing", 36: "the tables after the request differ from the reference",
              37: "a constant holds a value outside its declared min/max"}
MODEL_CODES = {12: "model and implementation answer differently", 13: "model and implementation hold different values / alarm states"}


def wrong_type_case():
    """S2F15 with values in a format the constant's type cannot hold (a fraction or a text for an integer constant, a text for a float
    constant, several values for a limited constant), alone and next to a good value: answered with an EAC (not an abort), nothing is
    applied, and every constant is still reported by S2F13 afterwards."""
    from secsgem.secs.variables import F4, F8, I4, String, U1, U4
    eq = Equip()
    problems = []
    try:
        def values():
            r = eq.request(2, 13, [10, "ex", 30, 40])
            return None if r is None else list(r.get())

        start = values()
        for data in ([(10, F4(3.5))], [(10, String("abc"))], [(10, U1([1, 2]))], [("ex", String("x"))], [(10, U4(60)), (30, F8(2.5))], [(30, String("x7"))], [(10, I4(-1))]):
            r = eq.request(2, 15, [{"ECID": i, "ECV": v} for i, v in data])
            eac = None if r is None else int(r.get())
            now = values()
            shown = [(i, type(v).__name__, v.get()) for i, v in data]
            if eac is None:
                problems.append(f"S2F15 {shown}: aborted instead of answered with an EAC")
            elif eac == 0:
                problems.append(f"S2F15 {shown}: accepted with EAC 0")
            if now is None:
                problems.append(f"after S2F15 {shown} an S2F13 for all four constants is aborted")
            elif now != start:
                problems.append(f"S2F15 {shown} (EAC {eac}) changed the constants from {start} to {now}")
            if problems:
                break
        r = eq.request(2, 15, [{"ECID": 10, "ECV": U4(61)}, {"ECID": 30, "ECV": I4(-9)}])
        if r is None or int(r.get()) != 0 or values() is None or values()[0] != 61 or values()[2] != -9:
            problems.append(f"a well-typed S2F15 afterwards: EAC {None if r is None else r.get()!r}, constants {values()}")
        # a value in another format that the constant's type CAN hold is applied as a value of that type (the text "7" for I4 30, U1 9 for U4 10)
        r = eq.request(2, 15, [{"ECID": 30, "ECV": String("7")}, {"ECID": 10, "ECV": U1(9)}])
        held = [eq.rig.handler.equipment_constants[k].value for k in (30, 10)]
        if r is None or int(r.get()) != 0 or held != [7, 9] or any(type(x) is not int for x in held) or values() is None or (values()[2], values()[0]) != (7, 9):
            problems.append(f"S2F15 [(30, 'String', '7'), (10, 'U1', 9)]: EAC {None if r is None else r.get()!r}, the constants hold {held!r}, S2F13 reports {values()}")
    finally:
        eq.rig.stop()
    return problems


def run(tier, replay=None):
    import json
    import logging
    from collections import Counter
    logging.disable(logging.CRITICAL)
    report = common.Report("C13", tier)
    if replay:
        doc = json.load(open(replay))
        print(json.dumps(doc, indent=1, default=str)[:3000])
        return 0
    proof = common.prove(report, "C13", ["alarms"], extra_targets=["Run/C13Run.vo"])
    ok, log = common.coq_make(["Run/C13Run.vo"])
    if not ok:
        report.violation({"kind": "broken-obligation", "obligation": "Run/C13Run.vo does not build", "detail": log[-1500:], "also": proof.get("broken")}, False, tag="modelbuild")
        return report.finish()
    rnd = common.rng("c13")
    cases = gen_cases(rnd, tier)
    wedged, kept, lits = [], [], []
    for c in cases:
        lit = common.guarded(lambda c=c: case_lit(c[1], c[0].endswith("+store")), repr(c[1]), wedged)
        if lit is not None:
            kept.append(c)
            lits.append(lit)
    cases = kept
    common.report_wedged(report, wedged, proof)
    wt = common.guarded(wrong_type_case, "S2F15 with values the constants' types cannot hold", wedged, 60.0)
    report.coverage["wrong_type_ecv_problems"] = wt
    if wt:
        report.violation({"kind": "counterexample", "what": "an S2F15 whose value does not fit the constant's type was not refused cleanly: "
                          "it is answered with a non-zero EAC, applies nothing, and S2F13 keeps reporting every constant", "problems": wt[:4]}, True, tag="wrongtype")
    bad, stats = evaluate(lits, "c13")
    spec_bad = [(i, m, sc) for i, m, sc in bad if sc >= 30]
    model_bad = [(i, m, sc) for i, m, sc in bad if m >= 10 and sc < 30]
    reported = set()
    for i, m, sc in sorted(spec_bad, key=lambda t: len(cases[t[0]][1])):
        if sc in reported:
            continue
        reported.add(sc)
        report.violation({"kind": "counterexample", "what": SPEC_CODES.get(sc, str(sc)), "ops": repr(cases[i][1]), "observed_case": lits[i], "model_code": m,
                          "broken_obligation": proof.get("broken")}, True, tag=f"spec{sc}")
    if not spec_bad:
        if model_bad:
            i, m, sc = min(model_bad, key=lambda t: len(cases[t[0]][1]))
            report.violation({"kind": "broken-correspondence", "obligation": "Model/EquipData.v no longer behaves like the status/constant/alarm handlers: " + MODEL_CODES.get(m, str(m)),
                              "ops": repr(cases[i][1]), "observed_case": lits[i], "count": len(model_bad)}, False, tag="model")
        elif stats["eval_errors"]:
            report.violation({"kind": "broken-correspondence", "obligation": "case evaluation failed", "detail": stats["eval_errors"][0]}, False, tag="eval")
        elif not proof["ok"]:
            report.violation({"kind": "broken-obligation", "obligation": proof["broken"], "searched": f"{len(lits)} histories on the implementation, none leaves the reference"}, False, tag="proof")
    cov = report.coverage
    cov["evaluations"] = sum(len(o) for _k, o in cases)
    cov["distinct_nontrivial"] = len(set(lits))
    cov["rule"] = ("a real GemEquipmentHandler with numeric and text ids (SVs 10,'sx',12; ECs 10 [0,100], 'ex' [-5,5] float, 30 unbounded, 40 [0,..) float; alarms 1,2,3): "
                   "random and directed histories of S1F3, S1F11, S2F13, S2F15 (known/unknown/repeated ids, values at and beyond the bounds, NaN, 1e300), S2F29, S5F3, S5F5, "
                   "S5F7, set_alarm/clear_alarm and value updates; after every step the reply or S5F1 and the constant values, alarm states and SV values are compared with "
                   "the model and with the E5 reference")
    cov["correspondence"] = {k: v for k, v in stats.items() if k != "eval_errors"}
    cov["distribution"] = {"kinds": dict(Counter(k for k, _ in cases)), "ops": dict(Counter(o[0] for _k, ops in cases for o in ops))}
    cov["samples"] = [repr(o)[:300] for _k, o in cases[:: max(1, len(cases) // 5)][:5]]
    return report.finish()
