"""Translator: control-state logic -> coq/Gen/ControlLogic.v (fail-closed).

From secsgem/gem/control_state_machine.py (ControlStateMachine): which enter events forward to which transition
(the registered _on_control_state_* methods and their if-chains) and every public method as the sequence of
transition requests / assignments to the remembered online sub-state it performs.
From secsgem/gem/state_models_capability.py (StateModelsCapability): which transitions' `called` events trigger which
collection event, the operator methods control_switch_*, the S1F15/S1F17 handlers and _get_control_state_id,
as programs of Model/ControlLang.v.  Any statement outside the recognised shapes is an error.
"""
from __future__ import annotations

import ast
import os
import sys

from astutil import GEN_DIR, TranslationError, coq_str, find_class, find_method, lit_int, lit_str, parse, write_if_changed
from gen_statemachines import read_machine

CSM = "secsgem/gem/control_state_machine.py"
SMC = "secsgem/gem/state_models_capability.py"
CE = "secsgem/gem/collection_event.py"


def body_wo_doc(fn):
    body = list(fn.body)
    if body and isinstance(body[0], ast.Expr) and isinstance(body[0].value, ast.Constant) and isinstance(body[0].value.value, str):
        body = body[1:]
    return body


def self_path(node):
    """self.a.b.c -> ['a','b','c'] or None"""
    parts = []
    while isinstance(node, ast.Attribute):
        parts.append(node.attr)
        node = node.value
    if isinstance(node, ast.Name) and node.id == "self":
        return list(reversed(parts))
    return None


def perform_call(stmt, what):
    if isinstance(stmt, ast.Expr) and isinstance(stmt.value, ast.Call) and self_path(stmt.value.func) == ["_perform_transition"] and len(stmt.value.args) == 1 and not stmt.value.keywords:
        return lit_str(stmt.value.args[0], what)
    return None


ATTRS = {"_initial_control_state": "AInitial", "_online_control_state": "AOnlineSub"}


def forwarder(fn):
    body = body_wo_doc(fn)

    def chain(stmts):
        if not stmts:
            return "FNone"
        if len(stmts) != 1:
            raise TranslationError(f"{CSM}:{fn.name}: one statement per branch expected")
        st = stmts[0]
        name = perform_call(st, fn.name)
        if name is not None:
            return f"(FDo {coq_str(name)})"
        if isinstance(st, ast.If):
            t = st.test
            if not (isinstance(t, ast.Compare) and len(t.ops) == 1 and isinstance(t.ops[0], ast.Eq) and self_path(t.left) and len(self_path(t.left)) == 1 and self_path(t.left)[0] in ATTRS):
                raise TranslationError(f"{CSM}:{fn.name}: condition shape")
            if len(st.body) != 1 or perform_call(st.body[0], fn.name) is None:
                raise TranslationError(f"{CSM}:{fn.name}: branch body")
            return f"(FIf {ATTRS[self_path(t.left)[0]]} {coq_str(lit_str(t.comparators[0], fn.name))} {coq_str(perform_call(st.body[0], fn.name))} {chain(st.orelse)})"
        raise TranslationError(f"{CSM}:{fn.name}: statement {ast.dump(st)[:80]}")

    return chain(body)


def machine_part(index, trans_names):
    mod = parse(CSM)
    cls = find_class(mod, "ControlStateMachine", CSM)
    init = find_method(cls, "__init__")
    regs = {}
    for st in init.body:
        if isinstance(st, ast.Expr) and isinstance(st.value, ast.Call):
            path = self_path(st.value.func)
            if path and path[-1] == "register":
                if len(path) != 4 or path[1] != "events" or path[2] not in ("enter", "leave") or len(st.value.args) != 1:
                    raise TranslationError(f"{CSM}: registration shape {path}")
                if path[2] != "enter":
                    raise TranslationError(f"{CSM}: leave handlers are not modelled")
                h = self_path(st.value.args[0])
                if not h or len(h) != 1 or path[0] not in index:
                    raise TranslationError(f"{CSM}: registration target")
                if index[path[0]] in regs:
                    raise TranslationError(f"{CSM}: two enter handlers on {path[0]}")
                regs[index[path[0]]] = h[0]
    fwd_lines = []
    for state, meth in sorted(regs.items()):
        fwd_lines.append(f"  | {state}%nat => {forwarder(find_method(cls, meth))}")
    methods = []
    for fn in cls.body:
        if not isinstance(fn, ast.FunctionDef) or fn.name.startswith("_"):
            continue
        if [a.arg for a in fn.args.args] != ["self"] or fn.decorator_list:
            raise TranslationError(f"{CSM}:{fn.name}: unexpected signature")
        steps = []
        for st in body_wo_doc(fn):
            name = perform_call(st, fn.name)
            if name is not None:
                if name not in trans_names:
                    raise TranslationError(f"{CSM}:{fn.name}: unknown transition {name}")
                steps.append(f"MPerform {coq_str(name)}")
            elif isinstance(st, ast.Assign) and len(st.targets) == 1 and self_path(st.targets[0]) == ["_online_control_state"]:
                steps.append(f"MRemember {coq_str(lit_str(st.value, fn.name))}")
            else:
                raise TranslationError(f"{CSM}:{fn.name}: statement {ast.dump(st)[:80]}")
        methods.append((fn.name, steps))
    return fwd_lines, methods


def enum_values(rel, clsname):
    cls = find_class(parse(rel), clsname, rel)
    vals = {}
    for node in cls.body:
        if isinstance(node, ast.Assign) and isinstance(node.targets[0], ast.Name):
            vals[node.targets[0].id] = lit_int(node.value, rel)
    return vals


def capability_part(index_by_member, methods, ce_vals):
    mod = parse(SMC)
    cls = find_class(mod, "StateModelsCapability", SMC)
    method_names = {m for m, _ in methods}

    def state_of(node, what):
        if isinstance(node, ast.Attribute) and isinstance(node.value, ast.Name) and node.value.id == "ControlState" and node.attr in index_by_member:
            return index_by_member[node.attr]
        raise TranslationError(f"{SMC}:{what}: ControlState.<member> expected")

    def cond(test, what):
        if not (isinstance(test, ast.Compare) and len(test.ops) == 1 and self_path(test.left) == ["_control_state", "current"]):
            raise TranslationError(f"{SMC}:{what}: condition shape {ast.dump(test)[:80]}")
        op, rhs = test.ops[0], test.comparators[0]
        if isinstance(op, ast.Eq):
            return [state_of(rhs, what)]
        if isinstance(op, ast.In) and isinstance(rhs, ast.List):
            return [state_of(x, what) for x in rhs.elts]
        raise TranslationError(f"{SMC}:{what}: comparison operator")

    def ce_list(call, what):
        if not (len(call.args) == 1 and isinstance(call.args[0], ast.List) and not call.keywords):
            raise TranslationError(f"{SMC}:{what}: trigger_collection_events([..]) expected")
        out = []
        for el in call.args[0].elts:
            if isinstance(el, ast.Attribute) and el.attr == "value" and isinstance(el.value, ast.Attribute) and isinstance(el.value.value, ast.Name) and el.value.value.id == "CollectionEventId" and el.value.attr in ce_vals:
                out.append(ce_vals[el.value.attr])
            else:
                raise TranslationError(f"{SMC}:{what}: CollectionEventId.<X>.value expected")
        return out

    def stmts(body, what, local):
        parts = []
        for st in body:
            if isinstance(st, ast.Assign) and len(st.targets) == 1 and isinstance(st.targets[0], ast.Name):
                if local[0] is None:
                    local[0] = st.targets[0].id
                if st.targets[0].id != local[0]:
                    raise TranslationError(f"{SMC}:{what}: a second local variable")
                parts.append(f"CSet ({lit_int(st.value, what)})")
            elif isinstance(st, ast.If):
                parts.append(f"CIf [{'; '.join(f'{s}%nat' for s in cond(st.test, what))}] ({seq(stmts(st.body, what, local))}) ({seq(stmts(st.orelse, what, local))})")
            elif isinstance(st, ast.Expr) and isinstance(st.value, ast.Call):
                path = self_path(st.value.func)
                if path and len(path) == 2 and path[0] == "_control_state" and path[1] in method_names and not st.value.args:
                    parts.append(f"CMethod {coq_str(path[1])}")
                elif path == ["trigger_collection_events"]:
                    parts.extend(f"CTrigger ({c})" for c in ce_list(st.value, what))
                else:
                    raise TranslationError(f"{SMC}:{what}: call {path}")
            elif isinstance(st, ast.Return):
                v = st.value
                if not (isinstance(v, ast.Call) and isinstance(v.func, ast.Call) and self_path(v.func.func) == ["stream_function"] and len(v.func.args) == 2
                        and len(v.args) == 1 and isinstance(v.args[0], ast.Name) and v.args[0].id == local[0]):
                    raise TranslationError(f"{SMC}:{what}: return self.stream_function(s, f)(<local>) expected")
                parts.append(f"CReply ({lit_int(v.func.args[0], what)}) ({lit_int(v.func.args[1], what)})")
            else:
                raise TranslationError(f"{SMC}:{what}: statement {ast.dump(st)[:80]}")
        return parts

    def seq(parts):
        if not parts:
            return "CSkip"
        out = parts[-1]
        for p in reversed(parts[:-1]):
            out = f"CSeq ({p}) ({out})"
        return out

    progs = {}
    for name in ["control_switch_online", "control_switch_offline", "control_switch_online_local", "control_switch_online_remote", "_on_s01f15", "_on_s01f17"]:
        progs[name] = seq(stmts(body_wo_doc(find_method(cls, name)), name, [None]))
    # called-event registrations
    init = find_method(cls, "__init__")
    called = []
    enter_regs = []
    for st in init.body:
        if isinstance(st, ast.Expr) and isinstance(st.value, ast.Call):
            f = st.value.func
            if isinstance(f, ast.Attribute) and f.attr == "register":
                chainp = f.value  # X.events.called
                if not (isinstance(chainp, ast.Attribute) and isinstance(chainp.value, ast.Attribute) and chainp.value.attr == "events"):
                    raise TranslationError(f"{SMC}: registration shape")
                kind = chainp.attr
                owner = chainp.value.value
                h = self_path(st.value.args[0])
                if not h or len(h) != 1:
                    raise TranslationError(f"{SMC}: registered handler")
                if isinstance(owner, ast.Call) and self_path(owner.func) == ["_control_state", "transition"] and kind == "called":
                    tname = lit_str(owner.args[0], SMC)
                    hb = body_wo_doc(find_method(cls, h[0]))
                    if len(hb) != 1 or not (isinstance(hb[0], ast.Expr) and isinstance(hb[0].value, ast.Call) and self_path(hb[0].value.func) == ["trigger_collection_events"]):
                        raise TranslationError(f"{SMC}:{h[0]}: a single trigger_collection_events call expected")
                    for c in ce_list(hb[0].value, h[0]):
                        called.append((tname, c))
                elif self_path(owner) and self_path(owner)[0] == "_control_state" and kind == "enter" and len(self_path(owner)) == 2:
                    enter_regs.append((self_path(owner)[1], h[0]))
                else:
                    raise TranslationError(f"{SMC}: registration on {ast.dump(owner)[:60]}")
    if enter_regs != [("attempt_online", "_on_control_state_attempt_online")]:
        raise TranslationError(f"{SMC}: enter registrations {enter_regs} (only the attempt-online probe is modelled)")
    # _get_control_state_id
    ids = []
    default = None
    for st in body_wo_doc(find_method(cls, "_get_control_state_id")):
        if isinstance(st, ast.If) and not st.orelse and len(st.body) == 1 and isinstance(st.body[0], ast.Return):
            c = cond(st.test, "_get_control_state_id")
            for s in c:
                ids.append((s, lit_int(st.body[0].value, "_get_control_state_id")))
        elif isinstance(st, ast.Return) and default is None:
            default = lit_int(st.value, "_get_control_state_id")
        else:
            raise TranslationError(f"{SMC}:_get_control_state_id: statement shape")
    if default is None:
        raise TranslationError(f"{SMC}:_get_control_state_id: no default")
    return progs, called, ids, default


def generate() -> str:
    states, index, trans, _current, _enum_vals = read_machine(CSM, "ControlStateMachine", "ControlState")
    index_by_member = {member: index[attr] for attr, member, _n, _p, _i in states}
    fwd_lines, methods = machine_part(index, {n for n, _s, _d in trans})
    ce_vals = enum_values(CE, "CollectionEventId")
    progs, called, ids, default = capability_part(index_by_member, methods, ce_vals)
    out = ["(* GENERATED by harness/gen_control.py from control_state_machine.py and state_models_capability.py — do not edit. *)",
           "From SG Require Import Base.Prelude Model.ControlLang.", "Open Scope Z_scope.", ""]
    out.append("Definition control_forward (state : nat) : fwd :=\n  match state with\n" + "\n".join(fwd_lines) + "\n  | _ => FNone\n  end.")
    out.append("")
    out.append("Definition control_methods : list (string * list mstep) := [\n  " + ";\n  ".join(f"({coq_str(n)}, [{'; '.join(s)}])" for n, s in methods) + "].")
    out.append("")
    out.append("Definition control_called_ce : list (string * Z) := [" + "; ".join(f"({coq_str(t)}, {c})" for t, c in called) + "].")
    out.append("")
    for name, prog in progs.items():
        out.append(f"Definition prog_{name.lstrip('_')} : cstmt :=\n  {prog}.")
    out.append("")
    out.append("Definition control_state_id (state : nat) : Z :=\n  match state with\n" + "\n".join(f"  | {s}%nat => {v}" for s, v in ids) + f"\n  | _ => {default}\n  end.")
    out.append("")
    for k, v in sorted(ce_vals.items()):
        out.append(f"Definition CE_{k} : Z := {v}.")
    out.append("")
    return "\n".join(out)


if __name__ == "__main__":
    try:
        changed = write_if_changed(os.path.join(GEN_DIR, "ControlLogic.v"), generate())
        print(f"gen_control: {'updated' if changed else 'unchanged'}")
    except TranslationError as exc:
        print(f"TRANSLATION-ERROR gen_control: {exc}")
        sys.exit(3)
