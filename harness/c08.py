"""C08 — every primary expecting a reply is answered exactly once, with the same system bytes."""
from __future__ import annotations

import c01
import c03
import common
import coqlit as L
import gemrig


def catalogue(rig):
    return sorted({(cls._stream, cls._function): cls for cls in c03.functions()}.items())


def registered(role):
    import gen_callbacks
    return sorted(gen_callbacks.role_table(role))


UNCATALOGUED = [(99, 1), (1, 99), (127, 255), (3, 255), (64, 1), (9, 5), (1, 0), (5, 0)]
GARBAGE = [b"\x01", b"\x01\x05\x41", b"\xff\xff\xff", b"\x41\x02a", b"\xb1\x04\x00\x00\x00", b"\x01\x02\x41\x01a\x01\x00"]


def valid_body(cls, rnd):
    fn = cls()
    if fn.data is None:
        return b""
    t = c03.type_of(fn.data)
    for _ in range(5):
        try:
            return cls(c01.rand_value(t, rnd, n=rnd.choice([0, 1, 2])) if t[0] == "arr" else c01.rand_value(t, rnd)).encode()
        except Exception:  # noqa: BLE001
            continue
    try:
        return cls().encode()
    except Exception:  # noqa: BLE001
        return b""


class Peer:
    def __init__(self, host):
        self.host = host
        self.rig = gemrig.GemRig(host=host, init="ONLINE", sub="REMOTE")
        if not host:
            h = self.rig.handler

            def boom(**_kw):
                raise RuntimeError("user code failed")

            h.remote_commands["BOOM"] = __import__("secsgem.gem", fromlist=["RemoteCommand"]).RemoteCommand("BOOM", "fails", [], 20)
            h.callbacks.rcmd_BOOM = boom
        # callbacks of the user's own that fail: on a stream outside the shipped catalogue, on a catalogued stream with an
        # uncatalogued function, and on a stream number beyond one byte's stream field used by the catalogue
        def user_boom(_handler, _message):
            raise RuntimeError("user callback failed")

        self.user_boom = user_boom
        self.user = set(USER_CALLBACKS)       # the user's callbacks registered right now
        for s, f in USER_CALLBACKS:
            self.rig.handler.register_stream_function(s, f, user_boom)
        self.rig.establish()
        self.rig.new_frames()

    def send(self, s, f, w, body):
        rig = self.rig
        system = rig.next_system()
        # system bytes are arbitrary 32-bit values: every fifth request carries one of the extremes (0 is falsy in Python)
        self.count = getattr(self, "count", 0) + 1
        if self.count % 5 == 0:
            system = (0, 0xFFFFFFFF, 0x80000000)[(self.count // 5) % 3]
        own = None
        if self.count % 7 == 0 and w:
            # the peer chooses its system bytes freely: here they equal those of a request of OURS that is still waiting for its reply.
            # The inbound primary is a new message all the same and is due its own answer
            self.own_requests = getattr(self, "own_requests", 0) + 1
            own, _holder = rig.call(lambda: rig.handler.send_and_waitfor_response(rig.sf.function(2, 17)()), wait_for=(2, 17))
            system = rig.pending[(2, 17)]
            rig.new_frames()
        request = gemrig.HsmsMessage(gemrig.HsmsHeader(system, 0, s, f, w, 0, gemrig.HsmsSType.DATA_MESSAGE), body)
        rig.conn.feed(request.blocks[0].encode())
        if not rig.settle():
            raise RuntimeError("gem rig did not settle")
        replies, system_ok, header_ok = [], True, True
        for b in rig.new_frames():
            h = b.header
            is_reply_like = h.function % 2 == 0 or h.stream == 9
            if h.system == system:
                if h.stream == 9 and h.function == 5:
                    replies.append("RS9F5")
                    try:
                        mhead = rig.sf.decode(gemrig.HsmsMessage(h, b.data)).get()
                        header_ok = bytes(mhead) == request.header.encode()
                    except Exception:  # noqa: BLE001
                        header_ok = False
                elif h.function == 0:
                    replies.append(f"(RAbort {L.z(h.stream)})")
                else:
                    replies.append(f"(RSec {L.z(h.stream)} {L.z(h.function)})")
            elif is_reply_like:
                system_ok = False
        if own is not None:
            rig.resolve((2, 17), None)
            own.join(10)
            if own.is_alive():
                raise RuntimeError("the requester of our own S2F17 did not return")
        return replies, system_ok, header_ok

    def change(self, op, s, f):
        """the application changes its callback table while the link is up: through the handler's methods or through the documented
        `handler.callbacks.sXXfYY = ...` attribute; the messages that follow are judged against the table as it is then"""
        h = self.rig.handler
        name = f"s{s:02d}f{f:02d}"
        if op == "unreg":
            h.unregister_stream_function(s, f)
            self.user.discard((s, f))
        elif op == "unreg_attr":
            setattr(h.callbacks, name, None)
            self.user.discard((s, f))
        elif op == "reg":
            h.register_stream_function(s, f, self.user_boom)
            self.user.add((s, f))
        elif op == "reg_attr":
            setattr(h.callbacks, name, self.user_boom)
            self.user.add((s, f))
        else:
            raise ValueError(op)

    def stop(self):
        self.rig.stop()


# (1, 3) and (2, 17): functions the GEM handlers answer themselves - a callback registered by the user takes precedence, and it fails
USER_CALLBACKS = [(99, 1), (1, 65), (13, 1), (3, 17), (127, 255), (1, 3), (2, 17)]


def run_history(host, msgs):
    peer = Peer(host)
    lits = []
    try:
        for m in msgs:
            if isinstance(m[0], str):
                peer.change(*m[:3])
                continue
            s, f, w, body = m
            replies, sys_ok, hdr_ok = peer.send(s, f, w, body)
            lits.append("{| b_host := " + L.bool_(host) + f"; b_s := {L.z(s)}; b_f := {L.z(f)}; b_w := {L.bool_(w)}; b_replies := [" + ";".join(replies)
                        + f"]; b_system_ok := {L.bool_(sys_ok)}; b_header_ok := {L.bool_(hdr_ok)}; b_user := {L.bool_((s, f) in peer.user)} |}}")
    finally:
        peer.stop()
    return lits


def gen_histories(rnd, tier):
    """list of (host?, [(s, f, w, body)], tags)"""
    hist = []
    cat = None
    for host in (False, True):
        role = "host" if host else "equipment"
        reg = registered(role)
        peer_sf = gemrig.GemRig(host=host).sf  # only for the catalogue; never enabled
        cat = {(cls._stream, cls._function): cls for cls in c03.functions()}
        others = [k for k in cat if k not in reg]
        rounds = 2 if tier == "quick" else 12
        for _ in range(rounds):
            msgs = []
            keys = list(reg) * 2 + rnd.sample(others, min(len(others), 25 if tier == "quick" else 60)) + UNCATALOGUED
            rnd.shuffle(keys)
            for (s, f) in keys:
                w = rnd.random() < 0.7
                c = rnd.random()
                if (s, f) in cat and c < 0.6:
                    body, tag = valid_body(cat[(s, f)], rnd), "valid"
                elif c < 0.8:
                    body, tag = b"", "empty"
                else:
                    body, tag = rnd.choice(GARBAGE), "garbage"
                msgs.append((s, f, w, body, tag))
            hist.append((host, msgs))
        del peer_sf
    # directed: a remote command whose callback fails, and one that works; the same primary with and without W-bit
    sf = gemrig.GemRig().sf
    boom = sf.function(2, 41)({"RCMD": "BOOM", "PARAMS": []}).encode()
    start = sf.function(2, 41)({"RCMD": "START", "PARAMS": []}).encode()
    unknown = sf.function(2, 41)({"RCMD": "NOPE", "PARAMS": []}).encode()
    hist.append((False, [(2, 41, True, boom, "valid"), (2, 41, True, start, "valid"), (2, 41, True, unknown, "valid"), (2, 41, False, start, "valid"),
                         (1, 1, True, b"", "valid"), (1, 1, False, b"", "valid"), (1, 3, False, b"\x01", "garbage"), (99, 1, False, b"", "empty"), (99, 1, True, b"", "empty")]))
    # the user's failing callbacks, with and without W-bit, in both roles
    for host in (False, True):
        hist.append((host, [(s, f, w, b"", "empty") for (s, f) in USER_CALLBACKS for w in (True, False)]))
    # well-formed bodies whose free-format item (ECV of S2F15, V of S6F11 ...) is nested deeper than the interpreter recurses: whatever the decoder
    # does with them, the primary is answered exactly once and the next message is handled normally
    deep15 = bytes([1, 1, 1, 2, 0xB1, 4, 0, 0, 0, 1]) + common.nested_bytes(700)
    deep13 = common.nested_bytes(700)
    hist.append((False, [(2, 15, True, deep15, "deep"), (1, 1, True, b"", "valid"), (1, 3, True, deep13, "deep"), (99, 1, True, deep13, "deep"), (7, 3, True, deep15, "deep"), (1, 1, True, b"", "valid")]))
    hist.append((True, [(6, 11, True, bytes([1, 3, 0xB1, 4, 0, 0, 0, 1, 0xB1, 4, 0, 0, 0, 2, 1, 1, 1, 2, 0xB1, 4, 0, 0, 0, 3, 1, 1]) + common.nested_bytes(700), "deep"),
                        (5, 1, True, deep13, "deep"), (1, 1, True, b"", "valid")]))
    # the callback table changes while the link is up: a callback that answered (failed) before is taken away - through the method or through
    # the callbacks attribute - and put back; each message is answered according to the table at that moment
    for host in (False, True):
        seq = []
        for (s, f) in [(99, 1), (1, 3), (13, 1), (2, 17)]:
            seq += [(s, f, True, b"", "empty"), ("unreg_attr", s, f), (s, f, True, b"", "empty"), (s, f, True, b"", "empty"), ("reg", s, f), (s, f, True, b"", "empty"),
                    ("unreg", s, f), (s, f, True, b"", "empty"), ("reg_attr", s, f), (s, f, True, b"", "empty"), (s, f, False, b"", "empty")]
        hist.append((host, seq))
    return hist


HEADER = "From SG Require Import Base.Prelude Gen.Callbacks Model.Dispatch Run.C08Run.\nOpen Scope Z_scope.\n"


def evaluate(lits, prefix, shard=400):
    shards, maps = [], []
    idx = list(range(len(lits)))
    for s in range(0, len(idx), shard):
        part = idx[s: s + shard]
        maps.append(part)
        shards.append("Definition cs : list c08case := [\n" + ";\n".join(lits[i] for i in part) + "\n].\nEval vm_compute in run_c08 cs.\n")
    outs = common.coq_eval_shards(prefix, HEADER, shards)
    bad, skipped, checked, errors = [], 0, 0, []
    for part, (ok, text) in zip(maps, outs):
        parsed = common.parse_triples(text) if ok else None
        if parsed is None:
            errors.append(text[-800:])
            continue
        b, sk, ch = parsed
        skipped += sk
        checked += ch
        bad.extend((part[i], m, s) for i, m, s in b)
    return bad, {"skipped_unmodelled": skipped, "spec_checked": checked, "eval_errors": errors, "observed": len(lits)}


SPEC_CODES = {35: "a registered callback that fails was not answered with exactly the stream's abort SxF0 (S9F5 where the catalogue has no abort for the stream)",
              31: "a primary with W-bit was not answered by exactly one message (secondary function+1, SxF0 or S9F5)", 33: "a reply carried other system bytes than the request",
              34: "S9F5 does not carry the header of the offending message", 36: "a primary without W-bit, handled without error, was answered with the callback's result",
              37: "a primary without W-bit was answered with S9F5 / several messages"}
MODEL_CODES = {12: "the replies are none of those the model derives from the callback's source"}


def run(tier, replay=None):
    import json
    import logging
    from collections import Counter
    logging.disable(logging.CRITICAL)
    report = common.Report("C08", tier)
    if replay:
        print(json.dumps(json.load(open(replay)), indent=1)[:3000])
        return 0
    proof = common.prove(report, "C08", ["callbacks", "catalogue", "dispatch"], extra_targets=["Run/C08Run.vo"])
    ok, log = common.coq_make(["Run/C08Run.vo"])
    if not ok:
        report.violation({"kind": "broken-obligation", "obligation": "Run/C08Run.vo does not build against the regenerated callback tables", "detail": log[-1500:], "also": proof.get("broken")}, False, tag="modelbuild")
        return report.finish()
    rnd = common.rng("c08")
    hist = gen_histories(rnd, tier)
    lits, meta = [], []
    wedged = []
    for host, msgs in hist:
        part = common.guarded(lambda host=host, msgs=msgs: run_history(host, [m[:4] for m in msgs]), repr([(host,) + m[:3] for m in msgs])[:2000], wedged, 120.0)
        if part is not None:
            lits += part
            meta += [(host,) + m for m in msgs if not isinstance(m[0], str)]
    common.report_wedged(report, wedged, proof)
    bad, stats = evaluate(lits, "c08")
    known = {e["id"]: e for e in common.known_findings("C08") if e.get("status") == "open"}
    spec_bad = [(i, m, sc) for i, m, sc in bad if sc >= 30]
    model_bad = [(i, m, sc) for i, m, sc in bad if m >= 10 and (sc < 30 or (sc == 36 and "C08-reply-without-wbit" in known))]
    seen_known = 0
    reported = set()
    for i, m, sc in spec_bad:
        if sc == 36 and "C08-reply-without-wbit" in known:
            seen_known += 1
            continue
        if sc in reported:
            continue
        reported.add(sc)
        host, s, f, w, body, tag = meta[i]
        report.violation({"kind": "counterexample", "what": SPEC_CODES.get(sc, str(sc)), "role": "host" if host else "equipment", "stream": s, "function": f, "w_bit": w,
                          "body_hex": body.hex(), "body_kind": tag, "observed_case": lits[i], "model_code": m, "broken_obligation": proof.get("broken")}, True, tag=f"spec{sc}")
    if seen_known:
        report.known(f"C08-reply-without-wbit: {known['C08-reply-without-wbit']['text']} ({seen_known} messages of this run)")
    if not reported:
        if model_bad:
            i, m, sc = model_bad[0]
            host, s, f, w, body, tag = meta[i]
            report.violation({"kind": "broken-correspondence", "obligation": "Model/Dispatch.v over Gen/Callbacks.v no longer predicts the handler's replies: " + MODEL_CODES.get(m, str(m)),
                              "role": "host" if host else "equipment", "stream": s, "function": f, "w_bit": w, "body_hex": body.hex(), "observed_case": lits[i], "count": len(model_bad)}, False, tag="model")
        elif stats["eval_errors"]:
            report.violation({"kind": "broken-correspondence", "obligation": "case evaluation failed", "detail": stats["eval_errors"][0]}, False, tag="eval")
        elif not proof["ok"]:
            report.violation({"kind": "broken-obligation", "obligation": proof["broken"], "searched": f"{len(lits)} messages on the implementation, all answered as C08 states"}, False, tag="proof")
    cov = report.coverage
    cov["evaluations"] = len(lits)
    cov["distinct_nontrivial"] = len(set(lits))
    cov["rule"] = ("a real GemEquipmentHandler and a real GemHostHandler, COMMUNICATING on the in-memory HSMS rig: sequences of primaries over every registered stream/function (twice), "
                   "a sample of the other catalogued functions and uncatalogued ones (S99F1, S1F99, S127F255, F0 ...), each with or without W-bit and with a body generated from the "
                   "function's own structure, an empty body or garbage; plus remote commands whose callback fails / works / is unknown; per message the frames written with its system "
                   "bytes (kind and count), foreign reply-like frames, and the S9F5 MHEAD are compared with the model and with the statement")
    cov["correspondence"] = {k: v for k, v in stats.items() if k != "eval_errors"}
    cov["distribution"] = {"role": dict(Counter("host" if m[0] else "equipment" for m in meta)), "w_bit": dict(Counter(str(m[3]) for m in meta)), "body": dict(Counter(m[5] for m in meta)),
                           "registered": sum(1 for m in meta if (m[1], m[2]) in set(registered("host" if m[0] else "equipment")))}
    cov["samples"] = [f"{'host' if m[0] else 'equipment'} S{m[1]}F{m[2]} W={m[3]} {m[5]} {m[4].hex()[:40]}" for m in meta[:: max(1, len(meta) // 6)][:6]]
    return report.finish()
