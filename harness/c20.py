"""C20 — a secsgem host and equipment always reach communication and agree on data."""
from __future__ import annotations

import queue
import threading
import time

import common
import gemrig
import protorig

import secsgem.gem
import secsgem.hsms
import secsgem.secs
from secsgem.secs.variables import U4


class Wire:
    """two in-memory connections joined by pump threads that cut the byte stream into random pieces with random pauses"""

    def __init__(self, rnd, conn_a, conn_b):
        self.rnd = rnd
        self.ends = {"a": conn_a, "b": conn_b}
        self.queues = {"a": queue.Queue(), "b": queue.Queue()}      # bytes sent by that end
        self.log = {"a": bytearray(), "b": bytearray()}
        self.stop = False
        self.closing = threading.Lock()
        self.link_in_enable = 0.0   # > 0: the link comes up INSIDE the enable() of the end enabled last, which then takes that long to return
        for name, conn in self.ends.items():
            conn.send_data = self._sender(name, conn)
            conn.disable = self._disabler(name, conn)
            conn.enable = self._enabler(name, conn)
        self.threads = [threading.Thread(target=self._pump, args=(s, d), daemon=True, name=f"_wire_{s}{d}") for s, d in (("a", "b"), ("b", "a"))]
        for t in self.threads:
            t.start()

    def _sender(self, name, conn):
        def send_data(data):
            if not conn.connected:
                return False
            self.log[name] += bytes(data)
            self.queues[name].put(bytes(data))
            return True
        return send_data

    def _enabler(self, name, conn):
        def enable():
            conn.enabled = True
            if self.link_in_enable > 0 and all(c.enabled for c in self.ends.values()) and not any(c.connected for c in self.ends.values()):
                # a peer that was waiting connects at once (TcpClientConnection / the listener thread do this on their own threads);
                # the enabling thread itself is slow to come back from enable()
                self.connect()
                time.sleep(self.link_in_enable)
        return enable

    def _disabler(self, name, conn):
        def disable():
            conn.enabled = False
            self.close()
        return disable

    def _pump(self, src, dst):
        q = self.queues[src]
        while not self.stop:
            try:
                data = q.get(timeout=0.05)
            except queue.Empty:
                continue
            i = 0
            while i < len(data) and not self.stop:
                n = self.rnd.choice([1, 2, 3, 5, 9, 14, 40, 1000])
                if self.rnd.random() < 0.3:
                    time.sleep(self.rnd.choice([0, 0.0005, 0.002]))
                target = self.ends[dst]
                if target.connected:
                    target.on_data({"source": target, "data": data[i:i + n]})
                i += n

    def connect(self):
        """the passive end (b) has accepted before the active end (a) learns that it is connected"""
        self.ends["b"].connect()
        self.ends["a"].connect()

    def close(self):
        """one end closes: both see the connection end"""
        with self.closing:
            for q in self.queues.values():
                while not q.empty():
                    q.get_nowait()
            for conn in self.ends.values():
                if conn.connected:
                    conn.peer_close()

    def shutdown(self):
        self.stop = True


def kinds(data):
    out = []
    data = bytes(data)
    while len(data) >= 4:
        n = int.from_bytes(data[:4], "big") + 4
        b = gemrig.HsmsBlock.decode(data[:n])
        data = data[n:]
        h = b.header
        st = h.s_type.value
        if st == 1:
            out.append("MSelReq")
        elif st == 2:
            out.append("MSelRsp")
        elif st == 0 and (h.stream, h.function) == (1, 13):
            out.append("MS1F13")
        elif st == 0 and (h.stream, h.function) == (1, 14):
            out.append("MS1F14")
        else:
            out.append(f"other:{st}:{h.stream}:{h.function}")
    return out


class Pair:
    def __init__(self, rnd, host_active):
        mode_h = secsgem.hsms.HsmsConnectMode.ACTIVE if host_active else secsgem.hsms.HsmsConnectMode.PASSIVE
        mode_e = secsgem.hsms.HsmsConnectMode.PASSIVE if host_active else secsgem.hsms.HsmsConnectMode.ACTIVE
        self.host_active = host_active
        self.sh = protorig.RigSettings(connect_mode=mode_h, device_id=0)
        self.se = protorig.RigSettings(connect_mode=mode_e, device_id=0)
        for s in (self.sh, self.se):
            s.timeouts.t3 = 20
            s.timeouts.t6 = 20
        self.host = secsgem.gem.GemHostHandler(self.sh)
        self.equip = secsgem.gem.GemEquipmentHandler(self.se, "ONLINE", "REMOTE")
        e = self.equip
        e.status_variables[10] = secsgem.gem.StatusVariable(10, "sv10", "mm", U4, False)
        e.status_variables[10].value = 123
        e.data_values[20] = secsgem.gem.DataValue(20, "dv20", U4, False)
        e.data_values[20].value = 77
        e.equipment_constants[30] = secsgem.gem.EquipmentConstant(30, "ec30", 0, 100, 50, "u", U4, False)
        e.equipment_constants[30].value = 40
        e.alarms[5] = secsgem.gem.Alarm(5, "al5", "alarm five", 1, 105, 205)
        self.started = []
        e.callbacks.rcmd_START = lambda **kw: self.started.append(1)
        ch, ce = self.host.protocol._connection, self.equip.protocol._connection
        active, passive = (ch, ce) if host_active else (ce, ch)
        self.wire = Wire(rnd, active, passive)        # end "a" = the active one
        self.events = []
        self.alarms = []
        self.host.protocol.events.collection_event_received += lambda d: self.events.append((int(d["ceid"].get()), [(int(v["dvid"]), int(v["value"])) for v in d["values"]]))
        self.reports = []
        self.host.protocol.events.collection_event_received += lambda d: self.reports.append((int(d["ceid"].get()), int(d["rptid"].get()), [(int(v["dvid"]), int(v["value"])) for v in d["values"]]))
        self.host.protocol.events.alarm_received += lambda d: self.alarms.append((int(d["alid"].get()), int(d["code"].get())))

    def both_communicating(self, seconds=10.0):
        deadline = time.monotonic() + seconds
        while time.monotonic() < deadline:
            if self.host.communication_state.current.value == 8 and self.equip.communication_state.current.value == 8:
                return True
            time.sleep(0.002)
        return False

    def wire_kinds(self):
        return kinds(self.wire.log["a"]), kinds(self.wire.log["b"])

    def stop(self):
        for h in (self.host, self.equip):
            try:
                if h.communication_state.current.value != 0:
                    common.with_deadline(h.disable, 10.0)
            except Exception:  # noqa: BLE001
                pass
        self.wire.shutdown()


def establish_case(rnd, host_active, first, link_in_enable=0.0, wait_hook=False):
    """enable in the given order, connect (after both enable() calls returned, or inside the second one), wait for both to
    communicate; returns the case literal and observations"""
    pr = Pair(rnd, host_active)
    pr.wire.link_in_enable = link_in_enable
    waiters, waited = [], {}
    try:
        if wait_hook:
            # an application thread calls waitfor_communicating() while the handshake runs; the one preemption that matters is forced:
            # the thread is held where it registers its wake-up event until the handler IS communicating
            for name, h in (("host", pr.host), ("equip", pr.equip)):
                class Held(list):
                    def append(self, item, h=h):
                        deadline = time.monotonic() + 10
                        while h.communication_state.current.value != 8 and time.monotonic() < deadline:
                            time.sleep(0.002)
                        list.append(self, item)
                h._wait_event_list = Held(h._wait_event_list)
                th = threading.Thread(target=lambda name=name, h=h: waited.__setitem__(name, h.waitfor_communicating(8)), daemon=True)
                th.start()
                waiters.append(th)
        order = [pr.host, pr.equip] if first == "host" else [pr.equip, pr.host]
        for h in order:
            h.enable()
        if not link_in_enable:
            pr.wire.connect()
        ok = pr.both_communicating()
        for th in waiters:
            th.join(12)
        if wait_hook and ok:
            ok = waited.get("host") is True and waited.get("equip") is True
        # the peer's S1F14 for the own S1F13 may still be on its way: wait until the wire has been quiet for a while
        deadline = time.monotonic() + 5
        last, since = None, time.monotonic()
        while time.monotonic() < deadline:
            now = (len(pr.wire.log["a"]), len(pr.wire.log["b"]), pr.wire.queues["a"].qsize(), pr.wire.queues["b"].qsize())
            if now != last:
                last, since = now, time.monotonic()
            elif time.monotonic() - since > 0.25:
                break
            time.sleep(0.01)
        a, b = pr.wire_kinds()
        sel = pr.host.protocol.connection_state.current.value == 3 and pr.equip.protocol.connection_state.current.value == 3
    finally:
        pr.stop()
    active_is_host = host_active
    en = {("host", True): "EnA", ("host", False): "EnP", ("equip", True): "EnP", ("equip", False): "EnA"}
    olit = "[" + ";".join(en[(who, active_is_host)] for who in ((first, "equip" if first == "host" else "host"))) + "]"
    lit = "{| v_order := " + olit + "; v_a2p := [" + ";".join(k for k in a if not k.startswith("other")) + "]; v_p2a := [" + ";".join(k for k in b if not k.startswith("other")) + "]; v_goal := " + ("true" if ok and sel else "false") + " |}"
    return lit, {"host_active": host_active, "first": first, "link_up_inside_enable_seconds": link_in_enable, "waitfor_communicating": dict(waited) if wait_hook else None, "communicating": ok, "selected": sel, "active_sent": a, "passive_sent": b}


def service_case(rnd, host_active):
    """after communication is established: the host service calls against what the equipment holds; events exactly once; a disable/enable cycle on each side"""
    pr = Pair(rnd, host_active)
    problems = []
    obs = {"host_active": host_active}

    def call(fn, *args):
        return common.with_deadline(lambda: fn(*args), 30.0)

    def until(cond, seconds=3.0):
        """events travel on their own threads: give them time, then a little more to catch duplicates"""
        deadline = time.monotonic() + seconds
        while time.monotonic() < deadline and not cond():
            time.sleep(0.005)
        time.sleep(0.1)

    try:
        pr.host.enable()
        pr.equip.enable()
        pr.wire.connect()
        if not pr.both_communicating():
            return obs, ["the handlers did not reach COMMUNICATING"]
        h, e = pr.host, pr.equip
        got = call(h.request_svs, [10, 99, 10]).get()
        if got != [123, [], 123]:
            problems.append(f"request_svs([10, 99, 10]) returned {got!r}, the equipment holds 123 / nothing / 123")
        names = call(h.list_svs, [10]).get()
        if [(n["SVID"], n["SVNAME"], n["UNITS"]) for n in names] != [(10, "sv10", "mm")]:
            problems.append(f"list_svs([10]) returned {names!r}")
        if call(h.request_ecs, [30]).get() != [40]:
            problems.append("request_ecs([30]) is not 40")
        eac = call(h.set_ecs, [[30, U4(60)]])
        if eac != 0 or e.equipment_constants[30].value != 60 or call(h.request_ec, 30).get() != [60]:
            problems.append(f"set_ecs 30:=60 -> EAC {eac!r}, equipment holds {e.equipment_constants[30].value!r}")
        eac = call(h.set_ecs, [[30, U4(101)]])
        if eac == 0 or e.equipment_constants[30].value != 60:
            problems.append(f"set_ecs 30:=101 (max 100) -> EAC {eac!r}, equipment holds {e.equipment_constants[30].value!r}")
        call(h.enable_alarm, 5)
        if not e.alarms[5].enabled:
            problems.append("enable_alarm(5) did not enable the alarm")
        th, _ = None, None
        call(e.set_alarm, 5)
        until(lambda: len(pr.alarms) >= 1)
        if pr.alarms != [(5, 129)]:
            problems.append(f"the host received alarm reports {pr.alarms!r} for one set_alarm(5)")
        lst = call(h.list_alarms, [5])
        lst = lst.get() if hasattr(lst, "get") else lst
        if [(int(a["ALID"]), int(a["ALCD"])) for a in lst] != [(5, 129)]:
            problems.append(f"list_alarms([5]) returned {lst!r}")
        call(h.subscribe_collection_event, 3, [10, 20])
        call(h.go_offline)
        if e.control_state.current.value != 5:
            problems.append("go_offline did not put the equipment into HOST OFFLINE")
        call(h.go_online)
        if e.control_state.current.value != 8:
            problems.append("go_online did not put the equipment ONLINE/REMOTE")
        until(lambda: len(pr.events) >= 1)
        want = [(3, [(10, 123), (20, 77)])]
        if pr.events != want:
            problems.append(f"one CONTROL_STATE_REMOTE event was triggered while subscribed; the host received {pr.events!r}")
        e.status_variables[10].value = 124
        e.trigger_collection_events([3])
        e.trigger_collection_events([2])         # not subscribed: nothing
        until(lambda: len(pr.events) >= 2)
        want.append((3, [(10, 124), (20, 77)]))
        if pr.events != want:
            problems.append(f"after a second trigger the host has received {pr.events!r}")
        # several events in one call: those that are not enabled / not linked / unknown are skipped, the others still reported
        e.trigger_collection_events([2, 999, 3])
        until(lambda: len(pr.events) >= 3)
        want.append((3, [(10, 124), (20, 77)]))
        if pr.events != want:
            problems.append(f"trigger_collection_events([2, 999, 3]) with only 3 subscribed: the host has received {pr.events!r}")
        # a second report on the same event: the host must see each report with its own variables
        call(h.subscribe_collection_event, 3, [20], 4711)
        del pr.reports[:]
        e.trigger_collection_events([3])
        until(lambda: len(pr.reports) >= 2)
        first_rpt = pr.reports[0][1] if pr.reports else None
        want_reports = [(3, first_rpt, [(10, 124), (20, 77)]), (3, 4711, [(20, 77)])]
        if pr.reports != want_reports:
            problems.append(f"an event with two linked reports was triggered once; the host received {pr.reports!r}, expected {want_reports!r}")
        want += [(3, [(10, 124), (20, 77)]), (3, [(20, 77)])]
        # the host clears everything (S2F37 disable all, S2F33 delete all) and subscribes again: the old links are gone, the event is reported once
        # ... and while the host is inside clear_collection_events(), before its S2F37 has gone out, the equipment triggers the event once
        # more: it is still enabled there, so it reaches the host like any other (forced: the host's disable_ceids is held back)
        real_disable = h.disable_ceids

        def racing_disable():
            e.trigger_collection_events([3])
            until(lambda: len(pr.events) >= 2, 2.0)
            return real_disable()

        h.disable_ceids = racing_disable
        del pr.events[:]
        try:
            call(h.clear_collection_events)
        finally:
            del h.disable_ceids
        if pr.events != [(3, [(10, 124), (20, 77)]), (3, [(20, 77)])]:
            problems.append(f"an event triggered while the host was inside clear_collection_events() (still enabled at the equipment) did not reach the host once: {pr.events!r}")
        del pr.events[:]
        e.trigger_collection_events([3])
        time.sleep(0.3)
        if pr.events:
            problems.append(f"after clear_collection_events() a triggered event still reached the host: {pr.events!r}")
        # the host subscribes again; the equipment triggers the event the moment it is enabled there - its S6F11 is on the wire before the S2F38
        # that ends subscribe_collection_event() (forced: the equipment's S2F37 handler triggers and waits until the host has dealt with it)
        real_s02f37 = e._on_s02f37

        def racing_s02f37(handler, message):
            result = real_s02f37(handler, message)
            e.trigger_collection_events([3])
            until(lambda: len(pr.events) >= 1, 2.0)
            return result

        e._on_s02f37 = racing_s02f37
        try:
            call(h.subscribe_collection_event, 3, [10])
        finally:
            del e._on_s02f37
        until(lambda: len(pr.events) >= 1, 2.0)
        if pr.events != [(3, [(10, 124)])]:
            problems.append(f"an event triggered as soon as it was enabled, while the host was still inside subscribe_collection_event(), did not reach the host once: {pr.events!r}")
        del pr.events[:]
        e.trigger_collection_events([3])
        until(lambda: len(pr.events) >= 1)
        if pr.events != [(3, [(10, 124)])]:
            problems.append(f"clear_collection_events(), subscribe_collection_event(3, [10]), one trigger: the host received {pr.events!r}")
        want = list(pr.events)
        ack = call(h.send_remote_command, "START", [])
        until(lambda: len(pr.started) >= 1)
        if pr.started != [1] or int(ack.HCACK.get()) != 4:
            problems.append(f"send_remote_command('START') -> HCACK {ack.HCACK.get()!r}, the equipment's callback ran {len(pr.started)} times")
        # either side is disabled and enabled again
        for who in ("host", "equip"):
            hd = h if who == "host" else e
            call(hd.disable)
            time.sleep(0.05)
            states = (h.communication_state.current.value, e.communication_state.current.value)
            if 8 in states:
                problems.append(f"after {who}.disable() the communication states are {states}")
            call(hd.enable)
            pr.wire.connect()
            if not pr.both_communicating():
                problems.append(f"after {who} was disabled and enabled again the handlers did not reach COMMUNICATING: {(h.communication_state.current, e.communication_state.current)}")
                break
            if call(h.request_svs, [10]).get() != [124]:
                problems.append(f"after the {who} cycle request_svs([10]) is not 124")
        obs["events"] = pr.events
    finally:
        pr.stop()
    return obs, problems


HEADER = "From SG Require Import Base.Prelude Model.Pair Run.C20Run.\nOpen Scope Z_scope.\n"


def evaluate(lits, prefix, shard=100):
    shards, maps = [], []
    idx = list(range(len(lits)))
    for s in range(0, len(idx), shard):
        part = idx[s: s + shard]
        maps.append(part)
        shards.append("Definition cs : list c20case := [\n" + ";\n".join(lits[i] for i in part) + "\n].\nEval vm_compute in run_c20 cs.\n")
    outs = common.coq_eval_shards(prefix, HEADER, shards)
    bad, skipped, checked, errors = [], 0, 0, []
    for part, (ok, text) in zip(maps, outs):
        parsed = common.parse_triples(text) if ok else None
        if parsed is None:
            errors.append(text[-800:])
            continue
        b, sk, ch = parsed
        skipped += sk
        checked += ch
        bad.extend((part[i], m, s) for i, m, s in b)
    return bad, {"skipped_unmodelled": skipped, "spec_checked": checked, "eval_errors": errors, "observed": len(lits)}


def run(tier, replay=None):
    import json
    import logging
    from collections import Counter
    logging.disable(logging.CRITICAL)
    report = common.Report("C20", tier)
    if replay:
        print(json.dumps(json.load(open(replay)), indent=1)[:3000])
        return 0
    proof = common.prove(report, "C20", ["statemachines"], extra_targets=["Run/C20Run.vo"])
    ok, log = common.coq_make(["Run/C20Run.vo"])
    if not ok:
        report.violation({"kind": "broken-obligation", "obligation": "Run/C20Run.vo does not build against the regenerated machines", "detail": log[-1500:], "also": proof.get("broken")}, False, tag="modelbuild")
        return report.finish()
    rnd = common.rng("c20")
    reps = 3 if tier == "quick" else 40
    wedged, lits, raws = [], [], []
    for rep in range(reps):
        for host_active in (True, False):
            for first in ("host", "equip"):
                lie = 0.3 if rep % 3 == 1 else 0.0   # every third round: the link is up and selected before the second enable() returns
                hook = rep % 3 == 2                  # every third round: application threads in waitfor_communicating(), held at the critical point
                r = common.guarded(lambda host_active=host_active, first=first, lie=lie, hook=hook: establish_case(rnd, host_active, first, lie, hook),
                                   f"establish: host_active={host_active}, first enabled={first}, link up inside enable()={lie}, waitfor_communicating threads={hook}", wedged, 90.0)
                if r is not None:
                    lits.append(r[0])
                    raws.append(r[1])
    bad, stats = evaluate(lits, "c20")
    for i, m, sc in bad:
        if sc >= 30:
            report.violation({"kind": "counterexample", "what": "host and equipment did not both reach SELECTED and COMMUNICATING within 10 s", **raws[i], "broken_obligation": proof.get("broken")}, True, tag="establish")
            break
    services = []
    for k in range(2 if tier == "quick" else 12):
        host_active = k % 2 == 0
        r = common.guarded(lambda host_active=host_active: service_case(rnd, host_active), f"host service calls, host_active={host_active}", wedged, 180.0)
        if r is None:
            continue
        obs, problems = r
        services.append({"host_active": host_active, "problems": problems})
        if problems:
            report.violation({"kind": "counterexample", "what": "a host service call / event delivery / re-establishment did not behave as C20 states", "host_active": host_active,
                              "problems": problems, **{k2: repr(v) for k2, v in obs.items()}}, True, tag="service")
            break
    common.report_wedged(report, wedged, proof)
    if not report.violations:
        model_bad = [(i, m, sc) for i, m, sc in bad if m >= 10]
        if model_bad:
            i = model_bad[0][0]
            report.violation({"kind": "broken-correspondence", "obligation": "what the two handlers put on the wire while establishing communication is not a trace of Model/Pair.v",
                              **raws[i], "observed_case": lits[i], "count": len(model_bad)}, False, tag="model")
        elif stats["eval_errors"]:
            report.violation({"kind": "broken-correspondence", "obligation": "case evaluation failed", "detail": stats["eval_errors"][0]}, False, tag="eval")
        elif not proof["ok"]:
            report.violation({"kind": "broken-obligation", "obligation": proof["broken"], "searched": f"{len(lits)} establishments and {len(services)} service scenarios on two real handlers: all as stated"}, False, tag="proof")
    cov = report.coverage
    cov["evaluations"] = len(lits) + len(services)
    cov["distinct_nontrivial"] = len(set(lits))
    cov["rule"] = ("a real GemHostHandler and a real GemEquipmentHandler in one process, joined by two pump threads that cut each byte stream into random pieces with random pauses: both HSMS "
                   "roles x both enable orders (repeated with different segmentations): both COMMUNICATING within 10 s and the Select/S1F13/S1F14 messages each side sent are a trace of "
                   "the pair model; then the host service calls (request_svs, list_svs, request_ecs, set_ecs in and out of range, enable_alarm, list_alarms, subscribe_collection_event, "
                   "go_offline/go_online, send_remote_command) against what the equipment holds, alarm and collection events counted at the host, and a disable/enable cycle of each side")
    cov["correspondence"] = {k: v for k, v in stats.items() if k != "eval_errors"}
    cov["services"] = services
    cov["distribution"] = {"roles": dict(Counter(f"host_active={r['host_active']},first={r['first']}" for r in raws))}
    cov["samples"] = lits[:3]
    return report.finish()
