"""Translator entry point: see pyfuns.py (generate_item -> coq/Gen/PyItemHdr.v)."""
import pyfuns

if __name__ == "__main__":
    pyfuns.main("gen_pyitemhdr", pyfuns.generate_item, "PyItemHdr.v")
