"""Translator: the state-machine engine - State.enter, State.leave, StateMachine._perform_transition -> coq/Gen/Engine.v (fail-closed).

The three method bodies are read statement by statement and emitted as the sequences of steps they are:

    State.enter(source):   self._active = True ; self.events.fire("enter", {}) ;
                           if self.parent is not None and (<conditions, or-ed>): self.parent.enter(source)
    State.leave(dest):     self.events.fire("leave", {}) ; self._active = False ;
                           if self.parent is not None and (<conditions, or-ed>): self.parent.leave(dest)
    _perform_transition:   transition = self.transition(name)
                           with self._transition_lock:
                               if self._current_state not in transition.sources: raise WrongSourceStateError(...)
                               self._current_state.leave(transition.destination)
                               old = self._current_state ; self._current_state = transition.destination
                               transition.destination.enter(old) ; transition()

in whatever order the source has them: the order is what is emitted.  Conditions on the way up: `<x> is None`, `not <x>.is_within(self.parent)`,
`not self.parent.active`.  Anything else stops the translator.  Props/C18.v states that Model/StateMachine.v (leave_chain, enter_chain, perform) is
written for exactly these sequences.
"""
from __future__ import annotations

import ast
import os
import sys

from astutil import GEN_DIR, TranslationError, coq_str, find_class, find_method, parse, write_if_changed

REL = "secsgem/common/state_machine.py"


def chain(node):
    out = []
    while isinstance(node, ast.Attribute):
        out.append(node.attr)
        node = node.value
    if isinstance(node, ast.Name):
        out.append(node.id)
    return ".".join(reversed(out))


def is_call(node, name):
    return isinstance(node, ast.Call) and chain(node.func) == name


def strip(stmts):
    return [s for s in stmts if not (isinstance(s, ast.Expr) and isinstance(s.value, ast.Constant))
            and not (isinstance(s, ast.Expr) and isinstance(s.value, ast.Call) and chain(s.value.func).startswith("self._logger."))]


def state_method(cls, name, arg, event):
    fn = find_method(cls, name)
    what = f"{REL}: State.{name}"
    if [a.arg for a in fn.args.args] != ["self", arg]:
        raise TranslationError(f"{what}: signature")
    ops = []
    for st in strip(fn.body):
        if isinstance(st, ast.Assign) and len(st.targets) == 1 and chain(st.targets[0]) == "self._active" and isinstance(st.value, ast.Constant) and isinstance(st.value.value, bool):
            ops.append("OSetActive" if st.value.value else "OClearActive")
            continue
        if isinstance(st, ast.Expr) and is_call(st.value, "self.events.fire") and len(st.value.args) == 2 and isinstance(st.value.args[0], ast.Constant):
            ops.append(f"OFire {coq_str(st.value.args[0].value)}")
            continue
        if isinstance(st, ast.If) and not st.orelse and len(st.body) == 1 and isinstance(st.body[0], ast.Expr) and is_call(st.body[0].value, f"self.parent.{name}") \
                and len(st.body[0].value.args) == 1 and chain(st.body[0].value.args[0]) == arg:
            t = st.test
            if not (isinstance(t, ast.BoolOp) and isinstance(t.op, ast.And) and len(t.values) == 2 and isinstance(t.values[0], ast.Compare)
                    and chain(t.values[0].left) == "self.parent" and isinstance(t.values[0].ops[0], ast.IsNot) and isinstance(t.values[0].comparators[0], ast.Constant)
                    and t.values[0].comparators[0].value is None):
                raise TranslationError(f"{what}: the step to the parent is not guarded by `self.parent is not None and (...)`")
            inner = t.values[1]
            alts = inner.values if isinstance(inner, ast.BoolOp) and isinstance(inner.op, ast.Or) else [inner]
            conds = []
            for a in alts:
                if isinstance(a, ast.Compare) and chain(a.left) == arg and isinstance(a.ops[0], ast.Is) and isinstance(a.comparators[0], ast.Constant) and a.comparators[0].value is None:
                    conds.append("other_is_none")
                elif isinstance(a, ast.UnaryOp) and isinstance(a.op, ast.Not) and is_call(a.operand, f"{arg}.is_within") and len(a.operand.args) == 1 and chain(a.operand.args[0]) == "self.parent":
                    conds.append("other_outside_parent")
                elif isinstance(a, ast.UnaryOp) and isinstance(a.op, ast.Not) and chain(a.operand) == "self.parent.active":
                    conds.append("parent_inactive")
                else:
                    raise TranslationError(f"{what}: condition on the way up not understood: {ast.dump(a)[:100]}")
            ops.append("OParent [" + "; ".join(coq_str(c) for c in conds) + "]")
            continue
        raise TranslationError(f"{what}: statement not understood: {ast.dump(st)[:120]}")
    if f"OFire {coq_str(event)}" not in ops:
        raise TranslationError(f"{what}: the {event} event is not fired")
    return ops


def within(cls):
    """State.is_within: walk up the parents until `other` is met"""
    body = strip(find_method(cls, "is_within").body)
    ok = (len(body) == 3 and isinstance(body[0], (ast.Assign, ast.AnnAssign)) and isinstance(body[1], ast.While) and isinstance(body[2], ast.Return)
          and isinstance(body[2].value, ast.Constant) and body[2].value.value is False)
    if ok:
        loop = strip(body[1].body)
        ok = (len(loop) == 2 and isinstance(loop[0], ast.If) and isinstance(loop[0].test, ast.Compare) and isinstance(loop[0].test.ops[0], ast.Is)
              and isinstance(loop[0].body[0], ast.Return) and isinstance(loop[0].body[0].value, ast.Constant) and loop[0].body[0].value.value is True
              and isinstance(loop[1], ast.Assign) and chain(loop[1].value).endswith(".parent"))
    if not ok:
        raise TranslationError(f"{REL}: State.is_within is not the walk up the parents")


def perform(cls):
    fn = find_method(cls, "_perform_transition")
    what = f"{REL}: StateMachine._perform_transition"
    body = strip(fn.body)
    if not (len(body) == 2 and isinstance(body[0], ast.Assign) and is_call(body[0].value, "self.transition") and isinstance(body[1], ast.With)
            and len(body[1].items) == 1 and chain(body[1].items[0].context_expr) == "self._transition_lock"):
        raise TranslationError(f"{what}: look-up, then one `with self._transition_lock:` block expected")
    tr = body[0].targets[0].id
    ops, remembered = [], None
    for st in strip(body[1].body):
        if isinstance(st, ast.If) and not st.orelse and isinstance(st.test, ast.Compare) and chain(st.test.left) == "self._current_state" and isinstance(st.test.ops[0], ast.NotIn) \
                and chain(st.test.comparators[0]) == f"{tr}.sources" and len(st.body) == 1 and isinstance(st.body[0], ast.Raise):
            ops.append("TCheckSource")
        elif isinstance(st, ast.Expr) and is_call(st.value, "self._current_state.leave") and len(st.value.args) == 1 and chain(st.value.args[0]) == f"{tr}.destination":
            ops.append("TLeaveCurrent")
        elif isinstance(st, ast.Assign) and isinstance(st.targets[0], ast.Name) and chain(st.value) == "self._current_state":
            remembered = st.targets[0].id
            ops.append("TRememberCurrent")
        elif isinstance(st, ast.Assign) and chain(st.targets[0]) == "self._current_state" and chain(st.value) == f"{tr}.destination":
            ops.append("TAssignCurrent")
        elif isinstance(st, ast.Expr) and is_call(st.value, f"{tr}.destination.enter") and len(st.value.args) == 1 and isinstance(st.value.args[0], ast.Name) \
                and st.value.args[0].id == remembered:
            ops.append("TEnterFromRemembered")
        elif isinstance(st, ast.Expr) and isinstance(st.value, ast.Call) and isinstance(st.value.func, ast.Name) and st.value.func.id == tr and not st.value.args:
            ops.append("TFireCalled")
        else:
            raise TranslationError(f"{what}: statement not understood: {ast.dump(st)[:120]}")
    return ops


def generate() -> str:
    mod = parse(REL)
    state = find_class(mod, "State", REL)
    within(state)
    enter = state_method(state, "enter", "source", "enter")
    leave = state_method(state, "leave", "destination", "leave")
    tr = perform(find_class(mod, "StateMachine", REL))
    return "\n".join(["(* GENERATED by harness/gen_engine.py from State.enter, State.leave and StateMachine._perform_transition - do not edit. *)",
                      "From SG Require Import Base.Prelude.", "",
                      "Inductive state_op := OSetActive | OClearActive | OFire (event : string) | OParent (when_any : list string).",
                      "Inductive trans_op := TCheckSource | TLeaveCurrent | TRememberCurrent | TAssignCurrent | TEnterFromRemembered | TFireCalled.", "",
                      "Definition state_enter_ops : list state_op := [" + "; ".join(enter) + "].",
                      "Definition state_leave_ops : list state_op := [" + "; ".join(leave) + "].",
                      "(* inside `with self._transition_lock:`, after the transition was looked up by name *)",
                      "Definition perform_ops : list trans_op := [" + "; ".join(tr) + "].", ""])


if __name__ == "__main__":
    try:
        changed = write_if_changed(os.path.join(GEN_DIR, "Engine.v"), generate())
        print(f"gen_engine: {'updated' if changed else 'unchanged'}")
    except TranslationError as exc:
        print(f"TRANSLATION-ERROR gen_engine: {exc}")
        sys.exit(3)
