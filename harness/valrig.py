"""Value rig: builds secsgem variables from harness type descriptions through the
library's public constructors and observes set/get/encode/decode.

Type descriptions (plain tuples, mirrored by coqlit.ty):
  ("rec", [(name, t), ...])   ("arr", t, count)   ("scal", kind, count)   ("dyn", [kinds], count)   ("any",)
"""
from __future__ import annotations

import itertools
import math

from secsgem.secs import variables as V
from secsgem.secs.data_items.base import DataItemBase, DataItemMeta

from coqlit import Typed

SCALARS = ["Binary", "Boolean", "String", "JIS8", "U1", "U2", "U4", "U8", "I1", "I2", "I4", "I8", "F4", "F8"]
_counter = itertools.count()
_cache = {}


def leaf_class(name, kind, count, allowed=None):
    key = (name, kind, count, tuple(allowed) if allowed is not None else None)
    if key not in _cache:
        attrs = {"__type__": getattr(V, kind), "__count__": count, "name": name}
        if allowed is not None:
            attrs["__allowedtypes__"] = [getattr(V, a) for a in allowed]
        _cache[key] = DataItemMeta(name, (DataItemBase,), attrs)
    return _cache[key]


def fmt_of(t, name="X"):
    """data_format accepted by variables.functions.generate for type t (field called `name`)."""
    tag = t[0]
    if tag == "scal":
        return leaf_class(name, t[1], t[2])
    if tag == "dyn":
        return leaf_class(name, "Dynamic", t[2], allowed=t[1])
    if tag == "any":
        return V.dynamic.ANYVALUE
    if tag == "arr":
        # generate() builds Array(elem) for a one-element list; the array is keyed by its element's name
        return [fmt_of(t[1], name)]
    if tag == "rec":
        out = [name]
        for fname, ft in t[1]:
            out.append(fmt_of(ft, fname))
        return out
    raise ValueError(tag)


def build(t):
    tag = t[0]
    if tag == "arr" and t[2] >= 0:
        return V.Array(fmt_of(t[1], "E"), count=t[2])
    if tag == "rec":
        return V.List(fmt_of(t, "TOP"))
    if tag == "arr":
        return V.Array(fmt_of(t[1], "E"))
    return V.functions.generate(fmt_of(t, "TOP"))


def to_py(p):
    """harness plain -> actual python argument (Typed -> variables.K(...))."""
    if isinstance(p, Typed):
        return getattr(V, p.kind)(to_py(p.value))
    if isinstance(p, list):
        return [to_py(x) for x in p]
    if isinstance(p, dict):
        return {k: to_py(v) for k, v in p.items()}
    return p


class Unobservable(Exception):
    pass


def snapshot(var):
    """Internal state as a coq `val` literal."""
    import coqlit as L

    if isinstance(var, V.Dynamic):
        if var.value is None:
            return "VNone"
        return snapshot(var.value)
    if isinstance(var, V.List):
        return "(VRec [" + ";".join(snapshot(var.data[k]) for k in var.data) + "])"
    if isinstance(var, V.Array):
        items = [snapshot(x) for x in var.data]
        return "(VArr " + L._runs(items, lambda s: s) + ")"
    if isinstance(var, V.Binary):
        return f"(VBin {L.nlist(var.value)})"
    if isinstance(var, V.Boolean):
        if not all(isinstance(b, bool) for b in var.value):
            raise Unobservable("non-bool in Boolean")
        return f"(VBool {L.blist(var.value)})"
    if isinstance(var, V.JIS8):
        return f"(VText true {L.nlist([ord(c) for c in var.value])})"
    if isinstance(var, V.String):
        return f"(VText false {L.nlist([ord(c) for c in var.value])})"
    if isinstance(var, V.base_number.BaseNumber):
        k = type(var).__mro__
        kind = next(c.__name__ for c in k if c.__name__ in SCALARS)
        if kind in ("F4", "F8"):
            if not all(isinstance(x, float) for x in var.value):
                raise Unobservable("non-float in float var")
            if any(math.isnan(x) for x in var.value):
                raise Unobservable("nan")
            return f"(VFlt {kind} {L.nlist([L.dbits(x) for x in var.value])})"
        if not all(isinstance(x, int) for x in var.value):
            raise Unobservable("non-int in int var")
        return f"(VNum {kind} {L.zlist([int(x) for x in var.value])})"
    raise Unobservable(type(var).__name__)


def has_nan(p):
    if isinstance(p, float):
        return math.isnan(p)
    if isinstance(p, (list, tuple)):
        return any(has_nan(x) for x in p)
    if isinstance(p, dict):
        return any(has_nan(x) for x in p.values())
    return False


def observe(t, p, tail=b"", before=None):
    """Run the implementation on (type, plain input). Returns a dict of observations.

    before: a value the variable is given first (set() on a variable that already holds something: what it holds afterwards, and what it
    encodes to, is a matter of the value set last - as for a fresh variable)."""
    import coqlit as L

    out = {"set_ok": False, "val": "VNone", "get": None, "enc": None, "dec": None, "err": None}
    try:
        var = build(t)
        if before is not None:
            try:
                var.set(to_py(before))
            except Exception:  # noqa: BLE001 - the earlier value was refused: a fresh variable again
                var = build(t)
        var.set(to_py(p))
    except Exception as exc:  # noqa: BLE001 - every exception is an observation
        out["err"] = f"set: {type(exc).__name__}: {exc}"[:200]
        return out
    out["set_ok"] = True
    out["val"] = snapshot(var)
    got = var.get()
    out["get"] = got
    try:
        enc = var.encode()
    except Exception as exc:  # noqa: BLE001
        out["err"] = f"encode: {type(exc).__name__}: {exc}"[:200]
        return out
    out["enc"] = enc
    try:
        fresh = build(t)
        end = fresh.decode(enc + tail)
        got2 = fresh.get()
        out["dec"] = (got2, end, bool(got2 == got))
    except Exception as exc:  # noqa: BLE001
        out["err"] = f"decode: {type(exc).__name__}: {exc}"[:200]
    return out


def obs_literal(t, p, tail, o):
    import coqlit as L

    def dec(d):
        return f"({L.plain(d[0])}, {d[1]}, {L.bool_(d[2])})"

    return (
        "{| o_ty := %s; o_in := %s; o_set_ok := %s; o_val := %s; o_get := %s; o_enc := %s; o_tail := %s; o_dec := %s |}"
        % (
            L.ty(t),
            L.plain(p),
            L.bool_(o["set_ok"]),
            o["val"],
            L.plain(o["get"]) if o["set_ok"] else "PNone",
            L.opt(o["enc"], L.nlist),
            L.nlist(tail),
            L.opt(o["dec"], dec),
        )
    )
