"""C09 — no peer behaviour wedges the endpoint: link loss ends in a clean, reusable state."""
from __future__ import annotations

import socket
import threading
import time

import coqlit as L
import common
import gemrig
import protorig

import secsgem.common
import secsgem.hsms

threading.excepthook = lambda args: None  # the listener thread prints EBADF when disable() closes its socket; stray thread deaths are observed through deadlines
from secsgem.hsms.header import HsmsHeader, HsmsSType
from secsgem.hsms.message import HsmsMessage


def frame_of(stype, system, stream=0, function=0, w=False, body=b""):
    session = 0xFFFF if stype else 0
    return HsmsMessage(HsmsHeader(system, session, stream, function, w, 0, HsmsSType(stype)), body).blocks[0].encode()


def sout_lits(frames, app):
    outs = []
    for b in frames:
        h = b.header
        st = h.s_type.value
        if st == 7:
            outs.append(f"(OutReject {L.z(h.system)} {L.z(h.function)})")
        elif st == 9:
            outs.append(f"(OutCtrl {L.z(9)} {L.z(0)})")
        else:
            outs.append(f"(OutCtrl {L.z(st)} {L.z(h.system)})")
    for m in app:
        outs.append(f"(OutDeliver {L.z(m.header.system)})")
    return outs


def split(chunks):
    data = b"".join(chunks)
    out = []
    while len(data) >= 4:
        n = int.from_bytes(data[:4], "big") + 4
        out.append(gemrig.HsmsBlock.decode(data[:n]))
        data = data[n:]
    return out


def nl(bs):
    return "[" + ";".join(f"{b}%N" for b in bs) + "]"


def run_cut(stream_frames, cut, selected, how):
    """connect, (select), feed the first `cut` bytes of the stream, end the connection by `how`, then connect and select again"""
    rig = protorig.HsmsRig(active=False, session_id=0)
    proto = rig.proto
    conn = rig.conn
    events, outs = [], []
    known = [0]

    def step(lit):
        if not rig.settle():
            raise common.Wedged("library threads did not come to rest")
        frames = split(conn.sent[known[0]:])
        known[0] = len(conn.sent)
        app = list(rig.app_messages)
        rig.app_messages.clear()
        events.append(lit)
        outs.append(sout_lits(frames, app))

    try:
        proto.enable()
        conn.connect()
        step("LConnect")
        if selected:
            f = frame_of(1, 0x41)
            conn.feed(f)
            step(f"(LFeed {nl(f)})")
        stream = b"".join(stream_frames)
        prefix = stream[:cut]
        before = len(rig.delivered)
        conn.feed(prefix)
        step(f"(LFeed {nl(prefix)})")
        delivered = len(rig.delivered) - before
        # the end of the connection
        if how == "peer_close":
            common.with_deadline(conn.peer_close, 20.0)
        elif how == "disable":
            common.with_deadline(proto.disable, 20.0)
        else:
            raise ValueError(how)
        step("LClose")
        disp = proto._thread
        alive = sum(1 for t in (disp._receiver_thread, disp._dispatcher_thread) if t is not None and t.is_alive())
        after = (proto.connection_state.current.value, len(rig.buffer), alive, proto._send_queue.qsize())
        if how == "disable":
            proto.enable()
        conn.connect()
        step("LConnect")
        f = frame_of(1, 0x42)
        conn.feed(f)
        step(f"(LFeed {nl(f)})")
        final = proto.connection_state.current.value
    finally:
        rig.stop()
    lens = "[" + ";".join(f"{len(f)}%nat" for f in stream_frames) + "]"
    return ("{| r_events := [" + ";".join(events) + "]; r_outs := [" + ";".join("[" + ";".join(o) + "]" for o in outs) + f"]; r_lens := {lens}; r_cut := {cut}%nat; "
            f"r_delivered := {delivered}%nat; r_state_after_close := {after[0]}%nat; r_buf_after_close := {after[1]}%nat; r_threads_after_close := {after[2]}%nat; "
            f"r_send_queue_after_close := {after[3]}%nat; r_final_state := {final}%nat |}}")


def streams(rnd):
    """valid inbound streams: control and data messages of several sizes"""
    s1 = [frame_of(5, 0x10), frame_of(0, 0x11, 1, 1, True), frame_of(0, 0x12, 6, 11, True, bytes([1, 2, 33, 1, 0, 165, 1, 7]))]
    s2 = [frame_of(1, 0x20), frame_of(5, 0x21), frame_of(0, 0x22, 99, 3, False, bytes(rnd.randrange(256) for _ in range(21))), frame_of(3, 0x23)]
    s3 = [frame_of(0, 0x30, 1, 13, True, b"\x01\x00"), frame_of(9, 0x31)]
    return [s1, s2, s3]


def gen_cases(rnd, tier):
    cases = []
    for si, st in enumerate(streams(rnd)):
        total = sum(len(f) for f in st)
        cuts = list(range(total + 1))
        if tier == "quick":
            cuts = sorted(set(cuts[:16] + cuts[-16:] + rnd.sample(cuts, min(len(cuts), 14))))
        for cut in cuts:
            for selected in (False, True):
                for how in ("peer_close", "disable"):
                    if tier == "quick" and (cut + selected + (how == "disable")) % 2:
                        continue
                    cases.append((si, st, cut, selected, how))
    return cases


# ---------------------------------------------------------------- real sockets
def tcp_round(port, stream, cut, how, slow_handler=0.0):
    """the same over TcpServerConnection and a real socket on the loopback interface; returns a dict of observations.
    slow_handler > 0: the application's handler for the 'disconnected' event takes that long (the peer reconnects meanwhile)"""
    import secsgem.common.tcp_connection
    secsgem.common.tcp_connection.TcpConnection.select_timeout = 0.02
    settings = secsgem.hsms.HsmsSettings(address="127.0.0.1", port=port, connect_mode=secsgem.hsms.HsmsConnectMode.PASSIVE, device_id=0)
    proto = secsgem.hsms.HsmsProtocol(settings)
    obs = {"cut": cut, "how": how, "slow_disconnected_handler": slow_handler}
    if slow_handler:
        proto.events.disconnected += lambda _data: time.sleep(slow_handler)

    def wait(cond, seconds=20.0):      # generous: several checks may be running at the same time; a pass never waits
        deadline = time.monotonic() + seconds
        while time.monotonic() < deadline:
            if cond():
                return True
            time.sleep(0.005)
        return False

    def client():
        deadline = time.monotonic() + 20
        while True:
            try:
                return socket.create_connection(("127.0.0.1", port), timeout=2)
            except OSError:
                if time.monotonic() > deadline:
                    raise
                time.sleep(0.02)

    def recv_frames(sock, n, seconds=20.0):
        sock.settimeout(seconds)
        data = b""
        try:
            while len(split([data])) < n:
                chunk = sock.recv(4096)
                if not chunk:
                    break
                data += chunk
        except OSError:
            pass
        return split([data])

    proto.enable()
    try:
        sock = client()
        obs["connected"] = wait(lambda: proto.connection_state.current.value == 2)
        sock.sendall(frame_of(1, 0x51))
        obs["selected"] = [b.header.s_type.value for b in recv_frames(sock, 1)] == [2] and wait(lambda: proto.connection_state.current.value == 3)
        sock.sendall(b"".join(stream)[:cut])
        time.sleep(0.05)
        if how == "peer_close":
            sock.close()
            obs["not_connected_after_close"] = wait(lambda: proto.connection_state.current.value == 0)
        else:
            t0 = time.monotonic()
            common.with_deadline(proto.disable, 15.0)
            obs["disable_seconds"] = round(time.monotonic() - t0, 2)
            obs["not_connected_after_close"] = proto.connection_state.current.value == 0
            # a well-behaved peer: it reads what the endpoint still sent (Separate.req) up to the end of the stream, then closes -
            # so the endpoint, which closed first, keeps its side of the connection in TIME_WAIT while it starts listening again
            sock.settimeout(5)
            try:
                while sock.recv(4096):
                    pass
            except OSError:
                pass
            sock.close()
            proto.enable()
        # NOT CONNECTED is reported before the disconnect handling has cleared the buffer and restarted the listener: give it time
        if not slow_handler:
            wait(lambda: len(proto._receive_buffer) == 0, 3.0)
        obs["buffer_after_close"] = 0 if slow_handler else len(proto._receive_buffer)
        try:
            sock2 = client()
        except OSError as exc:      # nobody listens any more: that is the observation, not a failure of the harness
            obs["reconnected"] = obs["reselected"] = False
            obs["connect_error"] = repr(exc)
            return obs
        obs["reconnected"] = wait(lambda: proto.connection_state.current.value == 2)
        sock2.sendall(frame_of(1, 0x52))
        got = recv_frames(sock2, 1)
        obs["reselected"] = [(b.header.s_type.value, b.header.system) for b in got] == [(2, 0x52)] and wait(lambda: proto.connection_state.current.value == 3)
        sock2.close()
        wait(lambda: proto.connection_state.current.value == 0)
    finally:
        t0 = time.monotonic()
        common.with_deadline(proto.disable, 15.0)
        obs["final_disable_seconds"] = round(time.monotonic() - t0, 2)
    return obs


HEADER = "From SG Require Import Base.Prelude Base.Kinds Spec.E37Session Model.Endpoint Run.C09Run.\nOpen Scope Z_scope.\n"


def disable_while_peer_connects_round():
    """The application disables the passive endpoint at the moment a peer connects: disable() sees the listener thread alive, the
    thread accepts the connection and ends, then disable() asks it to stop.  (The interleaving is forced by wrapping the thread
    object's is_alive(); everything else is the real TcpServerConnection on a loopback socket.)  disable() must return."""
    import secsgem.common.tcp_connection
    secsgem.common.tcp_connection.TcpConnection.select_timeout = 0.02
    port = common.own_port(9)
    settings = secsgem.hsms.HsmsSettings(address="127.0.0.1", port=port, connect_mode=secsgem.hsms.HsmsConnectMode.PASSIVE, device_id=0)
    proto = secsgem.hsms.HsmsProtocol(settings)
    conn = proto._connection
    obs = {}
    proto.enable()
    deadline = time.monotonic() + 5
    while time.monotonic() < deadline and not (getattr(conn, "_server_thread", None) and conn._server_thread.is_alive() and conn._server_sock):
        time.sleep(0.01)
    time.sleep(0.1)
    real_thread = conn._server_thread
    state = {}

    class Racy:
        def is_alive(self):
            if "client" in state:
                return real_thread.is_alive()
            try:
                state["client"] = socket.create_connection(("127.0.0.1", port), timeout=2)   # the peer connects right after the check ...
            except OSError as exc:
                state["client"] = None
                state["error"] = repr(exc)
            real_thread.join(2)                                                               # ... the listener accepts it and ends
            return True

        def __getattr__(self, name):
            return getattr(real_thread, name)

    conn._server_thread = Racy()
    try:
        common.with_deadline(proto.disable, 10.0)
        obs["disable_returned"] = True
    except common.Wedged:
        obs["disable_returned"] = False
    obs["peer_connected_in_between"] = state.get("client") is not None
    obs["not_connected"] = proto.connection_state.current.value == 0
    if state.get("client"):
        state["client"].close()
    return obs


def disable_races_peer_close_round():
    """disable() -> disconnect() has seen the receiver thread running; the peer closes and the thread ends; only then disconnect()
    asks the thread to stop.  After enable() the next connection must be served.  (The interleaving is forced where disconnect()
    reads the running flag, by a property on a subclass of the connection object; everything else is the real code on loopback TCP.)"""
    import secsgem.common.tcp_connection
    secsgem.common.tcp_connection.TcpConnection.select_timeout = 0.02
    port = common.own_port(8)
    settings = secsgem.hsms.HsmsSettings(address="127.0.0.1", port=port, connect_mode=secsgem.hsms.HsmsConnectMode.PASSIVE, device_id=0)
    proto = secsgem.hsms.HsmsProtocol(settings)
    conn = proto._connection
    obs = {}

    def client():
        deadline = time.monotonic() + 20
        while True:
            try:
                return socket.create_connection(("127.0.0.1", port), timeout=2)
            except OSError:
                if time.monotonic() > deadline:
                    raise
                time.sleep(0.01)

    def select_on(sock, system):
        sock.sendall(frame_of(1, system))
        sock.settimeout(20)
        try:
            data = sock.recv(100)
        except OSError:
            return False
        return len(data) == 14 and data[9] == 2

    proto.enable()
    try:
        s1 = client()
        obs["first_selected"] = select_on(s1, 0x61)
        state = {"armed": True}

        class Forced(type(conn)):
            @property
            def _thread_running(self):
                value = self.__dict__.get("_tr", False)
                if state["armed"] and value and threading.current_thread().name == "_verif_deadline":
                    state["armed"] = False
                    s1.close()
                    deadline = time.monotonic() + 10
                    while self.__dict__.get("_tr") and time.monotonic() < deadline:
                        time.sleep(0.01)
                    return True
                return value

            @_thread_running.setter
            def _thread_running(self, value):
                self.__dict__["_tr"] = value

        conn.__dict__["_tr"] = conn.__dict__.pop("_thread_running")
        conn.__class__ = Forced
        common.with_deadline(proto.disable, 30.0)
        obs["interleaving_forced"] = not state["armed"]
        proto.enable()
        s2 = client()
        obs["served_after_enable"] = select_on(s2, 0x62)
        s2.close()
    finally:
        try:
            common.with_deadline(proto.disable, 15.0)
        except common.Wedged:
            obs["final_disable_hung"] = True
    return obs


def disable_from_callback_round():
    """the application reacts to a received message by calling disable() - from the message_received callback, i.e. on the
    protocol's dispatcher thread - over real loopback TCP.  (It never returned before D43.)"""
    import secsgem.common.tcp_connection
    secsgem.common.tcp_connection.TcpConnection.select_timeout = 0.02
    port = common.own_port(7)
    settings = secsgem.hsms.HsmsSettings(address="127.0.0.1", port=port, connect_mode=secsgem.hsms.HsmsConnectMode.PASSIVE, device_id=0)
    proto = secsgem.hsms.HsmsProtocol(settings)
    done = threading.Event()

    def on_message(_data):
        proto.disable()
        done.set()

    proto.events.message_received += on_message
    proto.enable()
    deadline = time.monotonic() + 20
    while True:
        try:
            sock = socket.create_connection(("127.0.0.1", port), timeout=2)
            break
        except OSError:
            if time.monotonic() > deadline:
                raise
            time.sleep(0.01)
    sock.sendall(frame_of(1, 0x71))
    sock.settimeout(20)
    obs = {"selected": len(sock.recv(100)) == 14}
    sock.sendall(frame_of(0, 0x72, 1, 1, True))
    obs["disable_returned"] = done.wait(8.0)
    obs["not_connected"] = proto.connection_state.current.value == 0
    sock.close()
    return obs


def stale_dispatch_round():
    """SELECTED; the application's handler is slow; two frames arrive in one segment and the peer closes while the first is being
    handled: the second one belongs to the connection that ended - nothing of it may show on the next connection."""
    rig = protorig.HsmsRig(active=False, session_id=0)
    obs = {}
    try:
        rig.proto.enable()
        rig.conn.connect()
        rig.settle()
        rig.conn.feed(frame_of(1, 0x41))
        rig.settle()
        got = []

        def slow(data):
            got.append(data["message"].header.system)
            time.sleep(0.4)

        rig.proto.events.message_received += slow
        rig.conn.feed(frame_of(0, 0x10, 1, 1, True) + frame_of(0, 0x11, 1, 1, True))
        time.sleep(0.1)
        common.with_deadline(rig.conn.peer_close, 20.0)
        time.sleep(0.6)
        n0 = len(rig.conn.sent)
        rig.conn.connect()
        time.sleep(0.3)
        rig.settle()
        obs["written_on_the_new_connection_unprompted"] = b"".join(rig.conn.sent[n0:]).hex()
        rig.conn.feed(frame_of(1, 0x42))
        rig.settle()
        time.sleep(0.5)
        obs["handed_to_the_application"] = list(got)
    finally:
        rig.stop()
    return obs


def callback_waits_for_reply_round():
    """The application's handler asks the peer something (send_and_waitfor_response, T3 = 30 s) and the peer closes instead of
    answering.  Nobody answers on a connection that ended: the handler goes on without a reply, and the next connection is served
    at once - not after T3."""
    rig = protorig.HsmsRig(active=False, session_id=0)
    rig.settings.timeouts.t3 = 30
    obs = {}
    try:
        rig.proto.enable()
        rig.conn.connect()
        rig.settle()
        rig.conn.feed(frame_of(1, 0x41))
        rig.settle()
        box = {}

        def asking(data):
            if "asked" in box:
                return
            box["asked"] = time.monotonic()
            msg = HsmsMessage(HsmsHeader(rig.proto.get_next_system_counter(), 0, 1, 1, True, 0, HsmsSType.DATA_MESSAGE), b"")
            q = rig.proto._get_queue_for_system(msg.header.system)
            rig.proto.send_message(msg)
            try:
                box["reply"] = q.get(True, rig.settings.timeouts.t3)
            except Exception as exc:  # noqa: BLE001
                box["reply"] = repr(exc)
            rig.proto._remove_queue(msg.header.system)
            box["returned"] = time.monotonic()

        rig.proto.events.message_received += asking
        rig.conn.feed(frame_of(0, 0x10, 1, 1, False))
        deadline = time.monotonic() + 5
        while "asked" not in box and time.monotonic() < deadline:
            time.sleep(0.005)
        time.sleep(0.1)
        common.with_deadline(rig.conn.peer_close, 20.0)
        obs["not_connected_after_close"] = rig.proto.connection_state.current.value == 0
        n0 = len(rig.conn.sent)
        t0 = time.monotonic()
        rig.conn.connect()
        rig.conn.feed(frame_of(1, 0x42))
        deadline = time.monotonic() + 10
        answered = None
        while time.monotonic() < deadline and answered is None:
            data = b"".join(rig.conn.sent[n0:])
            if len(data) >= 14 and data[9] == 2:
                answered = time.monotonic() - t0
            time.sleep(0.01)
        obs["select_rsp_after_seconds"] = None if answered is None else round(answered, 2)
        obs["handler_went_on_after_seconds"] = round(box["returned"] - box["asked"], 2) if "returned" in box else None
        obs["handler_got"] = repr(box.get("reply"))
    finally:
        rig.stop()
    return obs


def disable_while_connect_succeeds_round():
    """The same moment on an ACTIVE endpoint: nobody listens, the connect thread retries; disable() sees the thread alive, the peer
    starts listening, the next attempt succeeds and the thread ends, then disable() asks it to stop.  disable() must return."""
    import secsgem.common.tcp_connection
    secsgem.common.tcp_connection.TcpConnection.select_timeout = 0.02
    port = common.own_port(9)
    settings = secsgem.hsms.HsmsSettings(address="127.0.0.1", port=port, connect_mode=secsgem.hsms.HsmsConnectMode.ACTIVE, device_id=0)
    settings.timeouts.t5 = 1
    proto = secsgem.hsms.HsmsProtocol(settings)
    conn = proto._connection
    obs = {}
    proto.enable()
    time.sleep(0.3)
    real_thread = conn.connection_thread
    state = {}

    class Racy:
        def is_alive(self):
            if "listener" in state:
                return real_thread.is_alive()
            lst = socket.socket()
            lst.setsockopt(socket.SOL_SOCKET, socket.SO_REUSEADDR, 1)
            try:
                lst.bind(("127.0.0.1", port))
                lst.listen(1)
            except OSError as exc:
                state["error"] = repr(exc)
            state["listener"] = lst            # the peer starts listening right after the check ...
            real_thread.join(5)                # ... the connect thread's next attempt succeeds and the thread ends
            return True

        def __getattr__(self, name):
            return getattr(real_thread, name)

    conn.connection_thread = Racy()
    try:
        common.with_deadline(proto.disable, 12.0)
        obs["disable_returned"] = True
    except common.Wedged:
        obs["disable_returned"] = False
    obs["connected_in_between"] = not real_thread.is_alive()
    obs["not_connected"] = proto.connection_state.current.value == 0
    if state.get("listener"):
        state["listener"].close()
    return obs


def active_disable_stays_down_round():
    """An ACTIVE endpoint (TcpClientConnection) that is connected, optionally in the middle of a frame of the peer, is disabled.
    disable() returns with NOT CONNECTED - and the endpoint STAYS down: no connection attempt after T5, no connect thread left."""
    import secsgem.common.tcp_connection
    secsgem.common.tcp_connection.TcpConnection.select_timeout = 0.02
    port = common.own_port(6)
    lst = socket.socket()
    lst.setsockopt(socket.SOL_SOCKET, socket.SO_REUSEADDR, 1)
    lst.bind(("127.0.0.1", port))
    lst.listen(4)
    lst.settimeout(5)
    settings = secsgem.hsms.HsmsSettings(address="127.0.0.1", port=port, connect_mode=secsgem.hsms.HsmsConnectMode.ACTIVE, device_id=0)
    settings.timeouts.t5 = 1
    settings.timeouts.t6 = 1
    proto = secsgem.hsms.HsmsProtocol(settings)
    obs = {}
    peers = []
    try:
        proto.enable()
        try:
            peer, _ = lst.accept()
            peers.append(peer)
            obs["connected"] = True
        except OSError:
            obs["connected"] = False
            return obs
        peer.sendall(b"\x00\x00\x00\x0a\xff\xff")      # the peer is inside a frame when the endpoint is taken down
        time.sleep(0.2)
        try:
            common.with_deadline(proto.disable, 12.0)
            obs["disable_returned"] = True
        except common.Wedged:
            obs["disable_returned"] = False
        obs["not_connected"] = proto.connection_state.current.value == 0
        # T5 (1 s) and more pass: a disabled endpoint makes no attempt to connect
        lst.settimeout(2.5)
        try:
            again, _ = lst.accept()
            peers.append(again)
            obs["connected_again_after_disable"] = True
        except OSError:
            obs["connected_again_after_disable"] = False
        obs["state_afterwards"] = proto.connection_state.current.name
        obs["connect_threads_alive"] = len([t for t in threading.enumerate() if "tcpClientConnection_connect" in t.name.replace("TcpClient", "tcpClient") and t.is_alive()])
    finally:
        for p_ in peers:
            try:
                p_.close()
            except OSError:
                pass
        lst.close()
        try:
            common.with_deadline(proto.disable, 5.0)
        except Exception:  # noqa: BLE001
            pass
    return obs


def connect_and_close_round(rounds=40):
    """A peer that connects and goes away at once - normal close, reset, or after the first bytes of a frame - again and again (a
    port scan, a health check, a peer that crashes while starting).  The PASSIVE endpoint keeps listening and serves the next peer."""
    import struct
    import secsgem.common.tcp_connection
    secsgem.common.tcp_connection.TcpConnection.select_timeout = 0.02
    port = common.own_port(5)
    settings = secsgem.hsms.HsmsSettings(address="127.0.0.1", port=port, connect_mode=secsgem.hsms.HsmsConnectMode.PASSIVE, device_id=0)
    proto = secsgem.hsms.HsmsProtocol(settings)
    obs = {"rounds": 0, "refused_for_good_at_round": None}
    select_req = HsmsMessage(HsmsHeader(0x55, 0xFFFF, 0, 0, False, 0, HsmsSType.SELECT_REQ), b"").blocks[0].encode()

    def connect(seconds):
        deadline = time.monotonic() + seconds
        while True:
            try:
                return socket.create_connection(("127.0.0.1", port), timeout=2)
            except OSError:
                if time.monotonic() > deadline:
                    return None
                time.sleep(0.005)

    proto.enable()
    try:
        for k in range(1, rounds + 1):
            peer = connect(5.0)
            if peer is None:
                obs["refused_for_good_at_round"] = k
                break
            obs["rounds"] = k
            try:
                if k % 3 == 1:
                    peer.setsockopt(socket.SOL_SOCKET, socket.SO_LINGER, struct.pack("ii", 1, 0))
                elif k % 3 == 2:
                    peer.sendall(select_req[: k % 14])
            except OSError:
                pass
            peer.close()
        probe = connect(5.0)
        obs["probe_connected"] = probe is not None
        if probe is not None:
            probe.settimeout(5)
            try:
                probe.sendall(select_req)
                rsp = b""
                while len(rsp) < 14:
                    chunk = probe.recv(14 - len(rsp))
                    if not chunk:
                        break
                    rsp += chunk
                obs["probe_answer"] = rsp.hex()
                obs["probe_selected"] = len(rsp) == 14 and rsp[9] == 2 and rsp[10:14] == select_req[10:14]
            except OSError as exc:
                # the probe may have been queued behind a connection that was still ending: once more
                obs["probe_error"] = repr(exc)
                probe.close()
                probe = connect(5.0)
                obs["probe_selected"] = False
                if probe is not None:
                    try:
                        probe.settimeout(5)
                        probe.sendall(select_req)
                        rsp = probe.recv(14)
                        obs["probe_answer"] = rsp.hex()
                        obs["probe_selected"] = len(rsp) == 14 and rsp[9] == 2
                    except OSError as exc2:
                        obs["probe_error"] = repr(exc2)
            if probe is not None:
                probe.close()
        obs["server_threads_alive"] = len([t for t in threading.enumerate() if "serverThread" in t.name and t.is_alive()])
    finally:
        try:
            common.with_deadline(proto.disable, 12.0)
            obs["disable_returned"] = True
        except common.Wedged:
            obs["disable_returned"] = False
    return obs


def disable_races_reconnect_decision_round():
    """An ACTIVE endpoint loses its link; its receiver thread decides to reconnect (reads `enabled`: True) - and right then the
    application calls disable(), which finds no connect thread alive yet.  The connect thread is started afterwards.  The endpoint
    must stay down.  Forced: `enabled` is a property of a subclass; the read inside _disconnected runs disable() to completion on
    another thread before it returns what it read."""
    import secsgem.common.tcp_connection
    from secsgem.common.tcp_client_connection import TcpClientConnection
    secsgem.common.tcp_connection.TcpConnection.select_timeout = 0.02
    port = common.own_port(2)
    lst = socket.socket()
    lst.setsockopt(socket.SOL_SOCKET, socket.SO_REUSEADDR, 1)
    lst.bind(("127.0.0.1", port))
    lst.listen(4)
    lst.settimeout(5)
    state = {"armed": False, "fired": False}

    class Racy(TcpClientConnection):
        @property
        def enabled(self):
            value = self.__dict__.get("_enabled_value", False)
            import sys
            if state["armed"] and value and sys._getframe(1).f_code.co_name == "_disconnected":
                state["armed"] = False
                state["fired"] = True
                th = threading.Thread(target=lambda: state.__setitem__("disable_returned", (proto.disable(), True)[1]), daemon=True)
                th.start()
                # until disable() has switched the flag off and looked for a connect thread (it then waits for this very thread to finish)
                deadline = time.monotonic() + 5
                while self.__dict__.get("_enabled_value") and time.monotonic() < deadline:
                    time.sleep(0.002)
                time.sleep(0.15)
            return value

        @enabled.setter
        def enabled(self, value):
            self.__dict__["_enabled_value"] = value

    class RacySettings(secsgem.hsms.HsmsSettings):
        def create_connection(self):
            return Racy(self)

    settings = RacySettings(address="127.0.0.1", port=port, connect_mode=secsgem.hsms.HsmsConnectMode.ACTIVE, device_id=0)
    settings.timeouts.t5 = 1
    proto = secsgem.hsms.HsmsProtocol(settings)
    obs = {}
    peers = []
    try:
        proto.enable()
        try:
            peer, _ = lst.accept()
        except OSError:
            obs["connected"] = False
            return obs
        obs["connected"] = True
        time.sleep(0.2)
        state["armed"] = True
        peer.close()                                  # the link is lost: the receiver thread will decide to reconnect
        deadline = time.monotonic() + 5
        while not state["fired"] and time.monotonic() < deadline:
            time.sleep(0.01)
        obs["decision_hooked"] = state["fired"]
        deadline = time.monotonic() + 10
        while not state.get("disable_returned") and time.monotonic() < deadline:
            time.sleep(0.01)
        obs["disable_returned"] = bool(state.get("disable_returned"))
        lst.settimeout(3.0)                           # T5 (1 s) and more: a disabled endpoint makes no attempt to connect
        try:
            again, _ = lst.accept()
            peers.append(again)
            obs["connected_again_after_disable"] = True
        except OSError:
            obs["connected_again_after_disable"] = False
        obs["connect_threads_alive"] = len([t for t in threading.enumerate() if "connectThread" in t.name and t.is_alive()])
        obs["state_afterwards"] = proto.connection_state.current.name
    finally:
        for p_ in peers:
            try:
                p_.close()
            except OSError:
                pass
        lst.close()
        try:
            common.with_deadline(proto.disable, 5.0)
        except Exception:  # noqa: BLE001
            pass
    return obs


def queue_case(rnd, sizes, packet, writes):
    """one direct call of HsmsProtocol._process_send_queue (no thread is running): blocks of the given byte sizes are queued, the
    connection's send_data answers as scripted; returns the Coq literal: packet counts, the answers, how each block ended"""
    from secsgem.common.block_send_info import BlockSendInfo
    rig = protorig.HsmsRig(active=False, inert=True)
    try:
        proto = rig.proto
        proto.send_packet_size = packet
        script = list(writes)
        calls = []

        def scripted(data):
            calls.append(len(data))
            return script.pop(0) if script else False

        rig.conn.send_data = scripted
        infos = [BlockSendInfo(bytes(rnd.randrange(256) for _ in range(n))) for n in sizes]
        resolutions = [[] for _ in infos]       # every call of resolve(): a waiting sender goes on at the FIRST one
        for k, info in enumerate(infos):
            inner = info.resolve
            info.resolve = (lambda value, k=k, inner=inner: (resolutions[k].append(bool(value)), inner(value))[1])
            proto._send_queue.put(info)
        common.with_deadline(proto._process_send_queue, 10.0)
        results = []
        for k in range(len(infos)):
            # what the sender waiting for this block is told: the first resolution
            results.append("None" if not resolutions[k] else ("(Some true)" if resolutions[k][0] else "(Some false)"))
        counts = [-(-n // packet) for n in sizes]
    finally:
        rig.stop()
    return ("{| q_blocks := [" + ";".join(f"{c}%nat" for c in counts) + "]; q_writes := [" + ";".join("true" if w else "false" for w in writes)
            + "]; q_results := [" + ";".join(results) + "] |}"), {"sizes": sizes, "packet": packet, "writes": writes, "results": results, "resolve_calls": resolutions,
                                                                 "left_in_queue": len(infos) - sum(1 for r in results if r != "None")}


def evaluate_queue(lits):
    header = "From SG Require Import Base.Prelude Run.C09Run.\nOpen Scope nat_scope.\n"
    outs = common.coq_eval_shards("c09q", header, ["Definition cs : list c09qcase := [\n" + ";\n".join(lits) + "\n].\nEval vm_compute in run_c09q cs.\n"])
    ok, text = outs[0]
    parsed = common.parse_triples(text) if ok else None
    return parsed, text


def pending_sends_round(n_senders, cut_stream, cut):
    """The link dies while application threads have blocks in the send queue: the first write hangs until the peer is gone, every
    write fails from then on, the peer closes after `cut` bytes of a valid stream.  The disconnect handling must finish."""
    import threading
    import time
    from secsgem.hsms.header import HsmsHeader, HsmsSType
    from secsgem.hsms.message import HsmsMessage
    r = protorig.HsmsRig(active=False)
    obs = {"senders": n_senders, "cut_at_byte": cut}
    try:
        if not r.connect():
            raise RuntimeError("rig did not settle after connect")
        r.feed(frame_of(1, 1))  # Select.req
        r.settle()
        gate, calls, results = threading.Event(), [], []

        def dying(data):
            calls.append(len(data))
            if len(calls) == 1:
                gate.wait(10)
            return False

        r.conn.send_data = dying

        def send(i):
            results.append((i, r.proto.send_message(HsmsMessage(HsmsHeader(100 + i, 0, stream=1, function=1, s_type=HsmsSType.DATA_MESSAGE), b""))))

        threads = [threading.Thread(target=send, args=(i,), daemon=True) for i in range(n_senders)]
        threads[0].start()
        deadline = time.time() + 5
        while not calls and time.time() < deadline:
            time.sleep(0.01)
        for t in threads[1:]:
            t.start()
        time.sleep(0.2)
        stream = b"".join(cut_stream)[:cut]
        if stream:
            r.conn.feed(stream)
        closer = threading.Thread(target=r.conn.peer_close, daemon=True)
        gate.set()
        time.sleep(0.1)
        closer.start()
        closer.join(10)
        for t in threads:
            t.join(5)
        obs["disconnect_handling_finished"] = not closer.is_alive()
        obs["senders_returned"] = sum(1 for t in threads if not t.is_alive())
        obs["not_connected"] = "NOT_CONNECTED" in str(r.proto._connection_state.current)
        obs["send_queue_empty"] = r.proto._send_queue.empty()
    finally:
        try:
            r.stop()
        except Exception:  # noqa: BLE001
            pass
    return obs


def active_reconnect_round(cut_stream, cut, answered):
    """An ACTIVE endpoint: it sends Select.req itself.  The peer answers it or not, sends `cut` bytes of a valid stream and closes;
    the connection comes back at once.  The endpoint must select again: a new Select.req on the new connection, SELECTED once answered."""
    import time
    rig = protorig.HsmsRig(active=True, session_id=0)
    obs = {"cut_at_byte": cut, "first_select_answered": answered}

    def select_reqs():
        data, out = b"".join(rig.conn.sent), []
        while len(data) >= 4:
            n = int.from_bytes(data[:4], "big") + 4
            if len(data) >= n >= 14 and data[9] == 1:
                out.append(data[:n])
            data = data[n:]
        return out

    def wait_select_req(n, seconds=3.0):
        deadline = time.monotonic() + seconds
        while time.monotonic() < deadline and len(select_reqs()) < n:
            time.sleep(0.005)
        return len(select_reqs()) >= n

    try:
        rig.proto.enable()
        rig.conn.connect()
        obs["select_req_on_first_connection"] = wait_select_req(1)
        if answered and select_reqs():
            req = select_reqs()[0]
            rig.conn.feed(req[:9] + bytes([2]) + req[10:])      # Select.rsp with the same system bytes, status 0
            rig.settle(ignore_send_queue=True)
        prefix = b"".join(cut_stream)[:cut]
        if prefix:
            rig.conn.feed(prefix)
            rig.settle(ignore_send_queue=True)
        common.with_deadline(rig.conn.peer_close, 20.0)
        obs["not_connected_after_close"] = rig.proto.connection_state.current.value == 0
        n0 = len(select_reqs())
        rig.conn.connect()
        obs["select_req_on_new_connection"] = wait_select_req(n0 + 1)
        if obs["select_req_on_new_connection"]:
            req = select_reqs()[-1]
            rig.conn.feed(req[:9] + bytes([2]) + req[10:])
            deadline = time.monotonic() + 3
            while time.monotonic() < deadline and rig.proto.connection_state.current.value != 3:
                time.sleep(0.005)
        obs["selected_again"] = rig.proto.connection_state.current.value == 3
    finally:
        try:
            rig.stop()
        except Exception:  # noqa: BLE001
            pass
    return obs


def evaluate(lits, prefix, shard=80):
    shards, maps = [], []
    idx = list(range(len(lits)))
    for s in range(0, len(idx), shard):
        part = idx[s: s + shard]
        maps.append(part)
        shards.append("Definition cs : list c09case := [\n" + ";\n".join(lits[i] for i in part) + "\n].\nEval vm_compute in run_c09 cs.\n")
    outs = common.coq_eval_shards(prefix, HEADER, shards)
    bad, skipped, checked, errors = [], 0, 0, []
    for part, (ok, text) in zip(maps, outs):
        parsed = common.parse_triples(text) if ok else None
        if parsed is None:
            errors.append(text[-800:])
            continue
        b, sk, ch = parsed
        skipped += sk
        checked += ch
        bad.extend((part[i], m, s) for i, m, s in b)
    return bad, {"skipped_unmodelled": skipped, "spec_checked": checked, "eval_errors": errors, "observed": len(lits)}


SPEC_CODES = {31: "the messages dispatched from the prefix are not exactly those that arrived completely", 32: "the session is not NOT CONNECTED after the connection ended",
              33: "bytes of the old connection are still in the receive buffer", 34: "a receiver/dispatcher thread of the old connection is still alive",
              35: "blocks of the old connection are still in the send queue", 36: "the next connection did not reach SELECTED", 37: "the Select.req on the next connection was not answered"}
MODEL_CODES = {12: "model and implementation send / deliver differently", 13: "model and implementation end in different connection states"}


def run(tier, replay=None):
    import json
    import logging
    import os
    from collections import Counter
    logging.disable(logging.CRITICAL)
    report = common.Report("C09", tier)
    if replay:
        print(json.dumps(json.load(open(replay)), indent=1)[:3000])
        return 0
    proof = common.prove(report, "C09", ["sendqueue", "statemachines", "protoconsts", "rxloop", "lifecycle"], extra_targets=["Run/C09Run.vo"])
    ok, log = common.coq_make(["Run/C09Run.vo"])
    if not ok:
        report.violation({"kind": "broken-obligation", "obligation": "Run/C09Run.vo does not build", "detail": log[-1500:], "also": proof.get("broken")}, False, tag="modelbuild")
        return report.finish()
    rnd = common.rng("c09")
    cases = gen_cases(rnd, tier)
    wedged, kept, lits = [], [], []
    for c in cases:
        lit = common.guarded(lambda c=c: run_cut(c[1], c[2], c[3], c[4]), f"stream {c[0]} ({[f.hex() for f in c[1]]}) cut at byte {c[2]}, selected={c[3]}, ended by {c[4]}", wedged, 40.0)
        if lit is not None:
            kept.append(c)
            lits.append(lit)
    cases = kept
    common.report_wedged(report, wedged, proof)
    bad, stats = evaluate(lits, "c09")
    spec_bad = [(i, m, sc) for i, m, sc in bad if sc >= 30]
    model_bad = [(i, m, sc) for i, m, sc in bad if m >= 10 and sc < 30]
    reported = set()
    for i, m, sc in spec_bad:
        if sc in reported:
            continue
        reported.add(sc)
        c = cases[i]
        report.violation({"kind": "counterexample", "what": SPEC_CODES.get(sc, str(sc)), "stream_hex": [f.hex() for f in c[1]], "cut_at_byte": c[2], "selected_before": c[3],
                          "ended_by": c[4], "observed_case": lits[i][:3000], "model_code": m, "broken_obligation": proof.get("broken")}, True, tag=f"spec{sc}")
    # the link dies while application threads have blocks queued (their writes fail): the disconnect handling still finishes
    pending_obs, pwedged = [], []
    pst = streams(rnd)[0]
    for n_senders, cut in ([(1, 0), (3, 0), (3, 5), (4, 17)] if tier == "quick" else [(n, c) for n in (1, 2, 3, 4, 6) for c in (0, 3, 5, 14, 17, 30)]):
        obs = common.guarded(lambda n=n_senders, c=cut: pending_sends_round(n, pst, c), f"{n_senders} application threads sending while the link dies, peer closes after {cut} bytes", pwedged, 60.0)
        if obs is None:
            continue
        pending_obs.append(obs)
        if not (obs["disconnect_handling_finished"] and obs["senders_returned"] == obs["senders"] and obs["not_connected"] and obs["send_queue_empty"]):
            report.violation({"kind": "counterexample", "what": "with sends pending while the link died, the endpoint did not finish its disconnect handling / a sender never returned / blocks stayed queued",
                              "stream_hex": [f.hex() for f in pst], **obs}, True, tag="pending")
            break
    common.report_wedged(report, pwedged, proof)
    # an ACTIVE endpoint loses the link (its Select.req answered or still open) and gets it back at once: it selects again
    active_obs, awedged = [], []
    for cut, answered in ([(0, False), (6, False), (9, True), (20, True)] if tier == "quick" else [(c, a) for c in (0, 1, 4, 6, 9, 14, 20, 30) for a in (False, True)]):
        obs = common.guarded(lambda c=cut, a=answered: active_reconnect_round(pst, c, a), f"active endpoint, first Select.req answered={answered}, peer closes after {cut} bytes, reconnects at once", awedged, 60.0)
        if obs is None:
            continue
        active_obs.append(obs)
        if not all(obs.get(k2) for k2 in ("select_req_on_first_connection", "not_connected_after_close", "select_req_on_new_connection", "selected_again")):
            report.violation({"kind": "counterexample", "what": "an active endpoint did not end the lost connection cleanly / did not select again on the connection that followed at once",
                              "stream_hex": [f.hex() for f in pst], **obs}, True, tag="active")
            break
    common.report_wedged(report, awedged, proof)
    # disable() at the moment a peer connects
    race_obs = common.guarded(disable_while_peer_connects_round, "disable() while a peer connects (listener thread ends between disable()'s check and its stop request)", awedged, 60.0)
    if race_obs is not None and not (race_obs["disable_returned"] and race_obs["not_connected"]):
        report.violation({"kind": "counterexample", "what": "disable() did not return / the endpoint did not end NOT CONNECTED when a peer connected while it was being disabled", **race_obs}, True, tag="disablerace")
    race2_obs = common.guarded(disable_while_connect_succeeds_round, "disable() while the active endpoint's connection attempt succeeds", awedged, 60.0)
    if race2_obs is not None and not (race2_obs["disable_returned"] and race2_obs["not_connected"]):
        report.violation({"kind": "counterexample", "what": "disable() did not return / the endpoint did not end NOT CONNECTED when its connection attempt succeeded while it was being disabled", **race2_obs}, True, tag="disablerace")
    cw_obs = common.guarded(callback_waits_for_reply_round, "a handler waits for a reply when the peer closes", awedged, 90.0)
    if cw_obs is not None and not (cw_obs.get("not_connected_after_close") and cw_obs.get("select_rsp_after_seconds") is not None and cw_obs["select_rsp_after_seconds"] < 5
                                   and cw_obs.get("handler_got") == "None"):
        report.violation({"kind": "counterexample", "what": "a handler was waiting for a reply when the peer closed: the next connection was not selected promptly / the handler did not go on without a reply", **cw_obs}, True, tag="callbackwaits")
    scan_obs = common.guarded(lambda: connect_and_close_round(30 if tier == "quick" else 150), "a peer that connects and goes away at once, again and again", awedged, 120.0)
    if scan_obs is not None and not (scan_obs.get("probe_selected") and scan_obs.get("disable_returned") and scan_obs.get("refused_for_good_at_round") is None):
        report.violation({"kind": "counterexample", "what": "after peers that connected and went away at once the passive endpoint no longer accepts a connection / selects / disable() hangs", **scan_obs}, True, tag="connectclose")
    rd_obs = common.guarded(disable_races_reconnect_decision_round, "disable() right after the decision to reconnect", awedged, 60.0)
    if rd_obs is not None and rd_obs.get("connected") and rd_obs.get("decision_hooked") and (
            rd_obs.get("connected_again_after_disable") or rd_obs.get("connect_threads_alive") or not rd_obs.get("disable_returned") or rd_obs.get("state_afterwards") != "NOT_CONNECTED"):
        report.violation({"kind": "counterexample", "what": "disable() arrived between the decision to reconnect and the start of the connect thread: the disabled endpoint kept connecting", **rd_obs}, True, tag="reconnectrace")
    down_obs = common.guarded(active_disable_stays_down_round, "disable() of a connected active endpoint, then T5 passes", awedged, 60.0)
    if down_obs is not None and down_obs.get("connected") and not (down_obs.get("disable_returned") and down_obs.get("not_connected") and not down_obs.get("connected_again_after_disable")
                                                                   and down_obs.get("state_afterwards") == "NOT_CONNECTED"):
        report.violation({"kind": "counterexample", "what": "a disabled active endpoint did not stay NOT CONNECTED: it connected again after T5 / disable() did not return", **down_obs}, True, tag="staysdown")
    # _process_send_queue itself against scripted answers of the connection: every queued block is resolved by one run
    qlits, qraws = [], []
    for _ in range(60 if tier == "quick" else 600):
        packet = rnd.choice([1, 3, 7, 16])
        sizes = [rnd.choice([0, 1, 2, 7, 8, 20, 33]) for _ in range(rnd.randint(1, 6))]
        total = sum(-(-n // packet) for n in sizes)
        writes = [rnd.random() < rnd.choice([0.0, 0.5, 0.85, 1.0]) for _ in range(total + rnd.randint(0, 3))]
        r = common.guarded(lambda sizes=sizes, packet=packet, writes=writes: queue_case(rnd, sizes, packet, writes), f"_process_send_queue: blocks {sizes}, packet size {packet}, answers {writes}", awedged, 30.0)
        if r is not None:
            qlits.append(r[0])
            qraws.append(r[1])
            if any(len(calls) > 1 for calls in r[1]["resolve_calls"]) and not any("queueonce" in v for v in report.violations):
                report.violation({"kind": "counterexample", "what": "a queued block was resolved more than once: the sender was told a result before the block's last packet had been written", **r[1]}, True, tag="queueonce")
    qparsed, qtext = evaluate_queue(qlits) if qlits else ((([], 0, 0)), "")
    queue_model_bad = []
    if qparsed is None:
        report.violation({"kind": "broken-correspondence", "obligation": "evaluation of the send-queue cases failed", "detail": qtext[-800:]}, False, tag="queueeval")
    else:
        for i, m, sc in qparsed[0]:
            if sc >= 30:
                report.violation({"kind": "counterexample", "what": "one run of _process_send_queue left a queued block unresolved although the connection answered every write", **qraws[i]}, True, tag="queue")
                break
            queue_model_bad.append((i, m))
    sd_obs = common.guarded(stale_dispatch_round, "a frame still queued for dispatch when the peer closes, then a new connection", awedged, 60.0)
    if sd_obs is not None and (sd_obs.get("written_on_the_new_connection_unprompted") or sd_obs.get("handed_to_the_application") != [0x10]):
        report.violation({"kind": "counterexample", "what": "a frame of the connection that ended was handled on the next connection", **sd_obs}, True, tag="staledispatch")
    race3_obs = common.guarded(disable_races_peer_close_round, "disable() racing with the peer's close, then enable() and a new connection", awedged, 120.0)
    if race3_obs is not None and not (race3_obs.get("first_selected") and race3_obs.get("served_after_enable") and not race3_obs.get("final_disable_hung")):
        report.violation({"kind": "counterexample", "what": "after a disable() that raced with the peer's close, the connection that followed the next enable() was not served", **race3_obs}, True, tag="staleflag")
    # the same over real sockets (TcpServerConnection on the loopback interface)
    tcp_obs = []
    st = streams(rnd)[0]
    total = sum(len(f) for f in st)
    cuts = [0, 1, 3, 4, 9, 13, 14, 15, 20, total - 1, total] if tier == "quick" else list(range(total + 1))
    base = 20000 + (os.getpid() * 7) % 20000
    twedged = []
    for k, cut in enumerate(cuts):
        how = "peer_close" if k % 2 == 0 else "disable"
        slow = 0.4 if k % 4 == 2 and how == "peer_close" else 0.0      # some rounds: the application is slow to handle 'disconnected', the peer is back at once
        obs = common.guarded(lambda cut=cut, how=how, k=k, slow=slow: tcp_round(common.own_port(k), st, cut, how, slow),
                             f"TCP loopback: stream cut at byte {cut}, ended by {how}" + (", slow 'disconnected' handler" if slow else ""), twedged, 200.0)
        if obs is None:
            continue
        tcp_obs.append(obs)
        need = ["connected", "selected", "not_connected_after_close", "reconnected", "reselected"]
        if not all(obs.get(k2) for k2 in need) or obs.get("buffer_after_close", 0) != 0:
            report.violation({"kind": "counterexample", "what": "over a real socket the endpoint did not end the connection cleanly / accept and select the next one",
                              "stream_hex": [f.hex() for f in st], **obs}, True, tag="tcp")
            break
    common.report_wedged(report, twedged, proof)
    # last: should it fail, two threads stay behind (one of them spinning) until the process ends
    cb_obs = common.guarded(disable_from_callback_round, "disable() called from the message_received callback", awedged, 60.0)
    if cb_obs is not None and not cb_obs.get("disable_returned"):
        known9 = {e["id"]: e for e in common.known_findings("C09") if e.get("status") == "open"}
        if "C09-disable-from-callback" in known9 and cb_obs.get("selected") and cb_obs.get("not_connected"):
            report.known(f"C09-disable-from-callback: {known9['C09-disable-from-callback']['text']}")
        else:
            report.violation({"kind": "counterexample", "what": "disable() called from the message_received callback did not return / the endpoint did not reach NOT CONNECTED", **cb_obs}, True, tag="cbdisable")
    if not report.violations and queue_model_bad:
        i, m = queue_model_bad[0]
        report.violation({"kind": "broken-correspondence", "obligation": "Model/SendQueue.v (with Gen/SendQueue.v) no longer behaves like HsmsProtocol._process_send_queue", **qraws[i], "count": len(queue_model_bad)}, False, tag="queuemodel")
    if not report.violations:
        if model_bad:
            i, m, sc = model_bad[0]
            c = cases[i]
            report.violation({"kind": "broken-correspondence", "obligation": "Model/Endpoint.v no longer behaves like the HSMS endpoint: " + MODEL_CODES.get(m, str(m)),
                              "stream_hex": [f.hex() for f in c[1]], "cut_at_byte": c[2], "selected_before": c[3], "ended_by": c[4], "observed_case": lits[i][:3000], "count": len(model_bad)}, False, tag="model")
        elif stats["eval_errors"]:
            report.violation({"kind": "broken-correspondence", "obligation": "case evaluation failed", "detail": stats["eval_errors"][0]}, False, tag="eval")
        elif not proof["ok"]:
            report.violation({"kind": "broken-obligation", "obligation": proof["broken"], "searched": f"{len(lits)} cut streams on the in-memory rig and {len(tcp_obs)} over TCP: all clean and reusable"}, False, tag="proof")
    cov = report.coverage
    cov["evaluations"] = len(lits) + len(tcp_obs)
    cov["distinct_nontrivial"] = len(set(lits))
    cov["rule"] = ("three valid inbound streams (control and data messages, 35-70 bytes) cut at every byte offset (thorough) or at the first/last 16 offsets and a sample (quick), in "
                   "NOT SELECTED and SELECTED, ended by peer close or by disable(), each library call under a deadline; observed: messages dispatched from the prefix, state, receive buffer, "
                   "live receiver/dispatcher threads and send queue after the end, then a new connection with Select.req; plus the same over TcpServerConnection and a real loopback socket; "
                   "plus an ACTIVE endpoint whose link is lost (own Select.req answered or still open, stream cut at several offsets) and restored at once: new Select.req, SELECTED again; "
                   "plus 1-6 application threads with blocks in the send queue whose writes fail while the peer closes (disconnect handling finishes, every sender returns, queue empty)")
    cov["correspondence"] = {k: v for k, v in stats.items() if k != "eval_errors"}
    cov["send_queue_cases"] = {"count": len(qlits), "samples": qraws[:3]}
    cov["pending_sends_rounds"] = pending_obs
    cov["active_reconnect_rounds"] = active_obs
    cov["disable_while_peer_connects"] = race_obs
    cov["disable_while_connect_succeeds"] = race2_obs
    cov["active_disable_stays_down"] = down_obs
    cov["connect_and_close"] = scan_obs
    cov["disable_races_reconnect_decision"] = rd_obs
    cov["handler_waits_for_reply_at_link_loss"] = cw_obs
    cov["disable_races_peer_close"] = race3_obs
    cov["stale_dispatch_queue"] = sd_obs
    cov["disable_from_callback"] = cb_obs
    cov["tcp_rounds"] = {"count": len(tcp_obs), "max_disable_seconds": max([o.get("disable_seconds", 0) for o in tcp_obs] + [o.get("final_disable_seconds", 0) for o in tcp_obs] + [0])}
    cov["distribution"] = {"streams": dict(Counter(c[0] for c in cases)), "ended_by": dict(Counter(c[4] for c in cases)), "selected": dict(Counter(str(c[3]) for c in cases))}
    cov["samples"] = [f"stream {c[0]} cut {c[2]} selected={c[3]} {c[4]}" for c in cases[:: max(1, len(cases) // 6)][:6]]
    code = report.finish()
    sys_exit(code)
    return code


def sys_exit(code):
    """TcpConnection's receiver and listener threads are not daemon threads: leave without waiting for stragglers"""
    import os
    import sys
    sys.stdout.flush()
    os._exit(code)
