"""Translator entry point: see pyfuns.py (generate_secsi -> coq/Gen/PySecsIHdr.v)."""
import pyfuns

if __name__ == "__main__":
    pyfuns.main("gen_pysecsihdr", pyfuns.generate_secsi, "PySecsIHdr.v")
