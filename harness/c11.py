"""C11 — the GEM control state follows the E30 control model for every operator/host history."""
from __future__ import annotations

import coqlit as L
import common
import gemrig

INITS = ["EQUIPMENT_OFFLINE", "ATTEMPT_ONLINE", "HOST_OFFLINE", "ONLINE"]
SUBS = ["LOCAL", "REMOTE"]
PROBES = {"notcomm": "PNotCommunicating", "noreply": "PNoReply", "abort": "PAbort", "answer": "PAnswer"}
OPERATOR = {"online": "control_switch_online", "offline": "control_switch_offline", "local": "control_switch_online_local", "remote": "control_switch_online_remote"}


def out_lits(rig, raised):
    outs = []
    for b in rig.new_frames():
        h = b.header
        sf = (h.stream, h.function)
        if sf == (1, 1):
            outs.append("XProbe")
        elif sf == (6, 11):
            fn = rig.sf.decode(gemrig.HsmsMessage(h, b.data))
            outs.append(f"(XEvent {L.z(int(fn.CEID.get()))})")
        elif sf in ((1, 16), (1, 18)):
            fn = rig.sf.decode(gemrig.HsmsMessage(h, b.data))
            outs.append(f"(XAck {L.z(h.function)} {L.z(int(fn.get()))})")
        elif sf == (1, 0):
            outs.append("XAbortReply")
    if raised:
        outs.append("XRefused")
    return outs


def read_sv(rig, communicating):
    if not communicating:
        return int(rig.handler._get_control_state_id())  # nothing answers S1F3 before communication is established
    rig.send_primary(1, 3, rig.sf.function(1, 3)([1002]).encode())
    frames = [b for b in rig.new_frames() if (b.header.stream, b.header.function) == (1, 4)]
    if len(frames) != 1:
        raise RuntimeError("no single S1F4")
    fn = rig.sf.decode(gemrig.HsmsMessage(frames[0].header, frames[0].data))
    return int(fn.get()[0])


def run_history(init, sub, ops):
    """ops: ("online", probe) | ("offline",) | ("local",) | ("remote",) | ("s1f15",) | ("s1f17",) | ("enable", b) | ("establish",)"""
    rig = gemrig.GemRig(init=init, sub=sub)
    coq_ops, outs, states, svs = [], [], [], []
    communicating = False
    try:
        for op in ops:
            kind = op[0]
            raised = False
            if kind == "establish":
                if communicating:
                    continue
                rig.establish()
                # one report on the control state, linked to the three control-state events (S2F33 / S2F35)
                rig.send_primary(2, 33, rig.sf.function(2, 33)({"DATAID": 1, "DATA": [{"RPTID": 100, "VID": [1002]}]}).encode())
                rig.send_primary(2, 35, rig.sf.function(2, 35)({"DATAID": 1, "DATA": [{"CEID": c, "RPTID": [100]} for c in (1, 2, 3)]}).encode())
                rig.new_frames()
                communicating = True
                continue
            if kind in OPERATOR:
                probe = op[1] if kind == "online" else None
                if kind == "online" and (probe == "notcomm") != (not communicating):
                    continue          # the probe outcome must fit the communication state of this phase
                fn = getattr(rig.handler, OPERATOR[kind])
                th, holder = rig.call(fn, wait_for=(1, 1))
                if (1, 1) in rig.pending:
                    if probe == "answer":
                        rig.resolve((1, 1), lambda s: gemrig.data_frame(1, 2, s, b"\x01\x00"))
                    elif probe == "abort":
                        rig.resolve((1, 1), lambda s: gemrig.data_frame(1, 0, s, b""))
                    else:
                        rig.resolve((1, 1))
                th.join(10)
                if th.is_alive():
                    raise RuntimeError("operator call did not return")
                raised = "raised" in holder
                coq_ops.append(f"(XOnline {PROBES[probe]})" if kind == "online" else {"offline": "XOffline", "local": "XLocal", "remote": "XRemote"}[kind])
            elif kind in ("s1f15", "s1f17"):
                if not communicating:
                    continue
                rig.send_primary(1, 15 if kind == "s1f15" else 17)
                coq_ops.append("XS1F15" if kind == "s1f15" else "XS1F17")
            elif kind == "enable":
                if not communicating:
                    continue
                rig.send_primary(2, 37, rig.sf.function(2, 37)({"CEED": bool(op[1]), "CEID": []}).encode())
                coq_ops.append(f"(XEnable {L.bool_(bool(op[1]))})")
            else:
                raise ValueError(kind)
            if not rig.settle():
                raise RuntimeError("gem rig did not settle")
            outs.append(out_lits(rig, raised))
            states.append(rig.handler.control_state.current.value)
            svs.append(read_sv(rig, communicating))
    finally:
        rig.stop()
    return coq_ops, outs, states, svs


def case_lit(init, sub, ops):
    co, outs, states, svs = run_history(init, sub, ops)
    return ("{| k_init := " + L.string(init) + "; k_sub := " + L.string(sub) + "; k_ops := [" + ";".join(co) + "]; k_outs := ["
            + ";".join("[" + ";".join(o) + "]" for o in outs) + "]; k_states := [" + ";".join(f"{s}%nat" for s in states) + "]; k_svs := ["
            + ";".join(L.z(v) for v in svs) + "] |}")


def rand_ops(rnd, n):
    ops = []
    pre = rnd.randint(0, 3)
    for _ in range(pre):
        ops.append(rnd.choice([("online", "notcomm"), ("offline",), ("local",), ("remote",)]))
    ops.append(("establish",))
    for _ in range(n):
        c = rnd.random()
        if c < 0.25:
            ops.append(("online", rnd.choice(["noreply", "abort", "answer", "answer"])))
        elif c < 0.40:
            ops.append(("offline",))
        elif c < 0.52:
            ops.append(("local",))
        elif c < 0.64:
            ops.append(("remote",))
        elif c < 0.76:
            ops.append(("s1f15",))
        elif c < 0.90:
            ops.append(("s1f17",))
        else:
            ops.append(("enable", rnd.random() < 0.7))
    return ops


DIRECTED = [
    [("establish",), ("enable", True), ("s1f17",), ("local",), ("remote",), ("s1f15",), ("s1f17",), ("offline",), ("online", "answer"), ("local",), ("offline",), ("online", "answer")],
    [("establish",), ("enable", True), ("offline",), ("online", "noreply"), ("offline",), ("online", "abort"), ("s1f17",), ("s1f17",), ("s1f15",), ("s1f15",)],
    [("online", "notcomm"), ("offline",), ("offline",), ("online", "notcomm"), ("local",), ("remote",), ("establish",), ("s1f17",), ("enable", True), ("s1f15",), ("offline",), ("s1f17",), ("s1f15",)],
    # a refused LOCAL/REMOTE request must not change what the next entry to ON-LINE selects
    [("establish",), ("enable", True), ("local",), ("s1f17",), ("s1f15",), ("remote",), ("local",), ("s1f17",), ("local",), ("s1f15",), ("remote",), ("s1f17",)],
    [("establish",), ("s1f17",), ("enable", True), ("enable", False), ("local",), ("enable", True), ("remote",), ("offline",)],
]


OPS = [("online", "answer"), ("online", "noreply"), ("online", "abort"), ("offline",), ("local",), ("remote",), ("s1f15",), ("s1f17",)]


def exhaustive(depth):
    import itertools
    for seq in itertools.product(OPS, repeat=depth):
        yield [("establish",), ("enable", True)] + list(seq)


def gen_cases(rnd, tier):
    cases = []
    if tier == "thorough":
        for k, h in enumerate(exhaustive(3)):
            cases.append(("exhaustive3", INITS[k % 4], SUBS[(k // 4) % 2], h))
        for init in INITS:
            for sub in SUBS:
                for h in exhaustive(2):
                    cases.append(("exhaustive2", init, sub, h))
    else:
        for k, h in enumerate(exhaustive(2)):
            cases.append(("exhaustive2", INITS[k % 4], SUBS[(k // 4) % 2], h))
    for init in INITS:
        for sub in SUBS:
            for d in DIRECTED:
                cases.append(("directed", init, sub, d))
    n = 60 if tier == "quick" else 600
    for _ in range(n):
        cases.append(("random", rnd.choice(INITS), rnd.choice(SUBS), rand_ops(rnd, rnd.randint(1, 12 if tier == "quick" else 40))))
    return cases


HEADER = "From SG Require Import Base.Prelude Spec.E30Control Model.GemControl Run.C11Run.\nOpen Scope Z_scope.\nOpen Scope string_scope.\n"


def evaluate(lits, prefix, shard=100):
    shards, maps = [], []
    idx = list(range(len(lits)))
    for s in range(0, len(idx), shard):
        part = idx[s: s + shard]
        maps.append(part)
        shards.append("Definition cs : list c11case := [\n" + ";\n".join(lits[i] for i in part) + "\n].\nEval vm_compute in run_c11 cs.\n")
    outs = common.coq_eval_shards(prefix, HEADER, shards)
    bad, skipped, checked, errors = [], 0, 0, []
    for part, (ok, text) in zip(maps, outs):
        parsed = common.parse_triples(text) if ok else None
        if parsed is None:
            errors.append(text[-800:])
            continue
        b, sk, ch = parsed
        skipped += sk
        checked += ch
        bad.extend((part[i], m, s) for i, m, s in b)
    return bad, {"skipped_unmodelled": skipped, "spec_checked": checked, "eval_errors": errors, "observed": len(lits)}


SPEC_CODES = {31: "what was sent (probe / acknowledge / collection events) is not among what E30 admits for this request in this state",
              32: "the control state after the request is not the one E30 prescribes", 33: "history and observation differ in length (rig)",
              34: "the ControlState status variable differs from the state", 37: "operator OFF-LINE in HOST OFF-LINE (E30 transition 12) is refused"}
MODEL_CODES = {12: "model and implementation send different messages/events", 13: "model and implementation reach different control states",
               14: "model and implementation report a different ControlState value", 15: "lengths differ"}


def run(tier, replay=None):
    import json
    import logging
    from collections import Counter
    logging.disable(logging.CRITICAL)
    report = common.Report("C11", tier)
    if replay:
        doc = json.load(open(replay))
        print(json.dumps(doc, indent=1)[:3000])
        if doc.get("ops"):
            print("re-run on the implementation now:", case_lit(doc["init"], doc["sub"], [tuple(o) for o in doc["ops"]]))
        return 0
    proof = common.prove(report, "C11", ["statemachines", "control"], extra_targets=["Run/C11Run.vo"])
    ok, log = common.coq_make(["Run/C11Run.vo"])
    if not ok:
        report.violation({"kind": "broken-obligation", "obligation": "Run/C11Run.vo does not build against the regenerated control logic", "detail": log[-1500:], "also": proof.get("broken")}, False, tag="modelbuild")
        return report.finish()
    rnd = common.rng("c11")
    cases = gen_cases(rnd, tier)
    wedged, kept, lits = [], [], []
    for c in cases:
        lit = common.guarded(lambda c=c: case_lit(c[1], c[2], c[3]), repr(c[1:]), wedged)
        if lit is not None:
            kept.append(c)
            lits.append(lit)
    cases = kept
    common.report_wedged(report, wedged, proof)
    bad, stats = evaluate(lits, "c11")
    spec_bad = [(i, m, sc) for i, m, sc in bad if sc >= 30]
    model_bad = [(i, m, sc) for i, m, sc in bad if m >= 10 and sc < 30]
    reported = set()
    for i, m, sc in spec_bad:
        if sc in reported:
            continue
        reported.add(sc)
        report.violation({"kind": "counterexample", "what": SPEC_CODES.get(sc, str(sc)), "init": cases[i][1], "sub": cases[i][2], "ops": cases[i][3],
                          "observed_case": lits[i], "model_code": m, "broken_obligation": proof.get("broken")}, True, tag=f"spec{sc}")
    if not spec_bad:
        if model_bad:
            i, m, sc = model_bad[0]
            report.violation({"kind": "broken-correspondence", "obligation": "Model/GemControl.v (+ Gen/ControlLogic.v) no longer behaves like the control state handling: " + MODEL_CODES.get(m, str(m)),
                              "init": cases[i][1], "sub": cases[i][2], "ops": cases[i][3], "observed_case": lits[i], "count": len(model_bad)}, False, tag="model")
        elif stats["eval_errors"]:
            report.violation({"kind": "broken-correspondence", "obligation": "case evaluation failed", "detail": stats["eval_errors"][0]}, False, tag="eval")
        elif not proof["ok"]:
            report.violation({"kind": "broken-obligation", "obligation": proof["broken"], "searched": f"{len(lits)} histories on the implementation, none violates the E30 reference"}, False, tag="proof")
    cov = report.coverage
    cov["evaluations"] = len(lits)
    cov["distinct_nontrivial"] = len(set(lits))
    cov["rule"] = ("a real GemEquipmentHandler (all 8 configured defaults) on the in-memory HSMS rig: operator calls control_switch_* before and after communication is "
                   "established, host S1F15/S1F17, S2F37 enable/disable of the three control-state events (linked through S2F33/S2F35), the S1F1 probe answered with "
                   "S1F2 / S1F0 / never; after every step the frames sent, control_state.current and SVID 1002 (via S1F3) are compared with the model and with the E30 reference")
    cov["correspondence"] = {k: v for k, v in stats.items() if k != "eval_errors"}
    cov["distribution"] = {"kinds": dict(Counter(k for k, *_ in cases)), "configs": dict(Counter(f"{i}/{s}" for _k, i, s, _o in cases)),
                           "ops": dict(Counter(o[0] if o[0] != "online" else f"online:{o[1]}" for _k, _i, _s, ops in cases for o in ops))}
    cov["samples"] = [repr(c[1:])[:300] for c in cases[:: max(1, len(cases) // 5)][:5]]
    return report.finish()
