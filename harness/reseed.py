#!/usr/bin/env python3
"""Re-run checks against a stored seeded change.  usage: reseed.py <seed-id> [check ids...]
Applies /verif/seeded/<seed-id>/patch.diff to /repo (never committed), runs the checks (quick tier), undoes it,
and merges the outcome into meta.json."""
import json
import subprocess
import sys

import os

REPO2 = os.environ.get("SEED_REPO", "/repo")
VERIF2 = os.environ.get("SEED_VERIF", "/verif")
seed = sys.argv[1]
d = f"/verif/seeded/{seed}"
meta = json.load(open(f"{d}/meta.json"))
checks = sys.argv[2:] or [meta["property"]]


def sh(cmd, cwd=None, timeout=3000):
    p = subprocess.run(cmd, shell=True, cwd=cwd, capture_output=True, text=True, timeout=timeout)
    return p.returncode, p.stdout + p.stderr


rc, out = sh(f"git -C {REPO2} status --porcelain")
assert out.strip() == "", "/repo not clean"
rc, out = sh(f"git -C {REPO2} apply {d}/patch.diff")
assert rc == 0, out
try:
    for c in checks:
        rc, out = sh(f"SECSGEM_REPO={REPO2} ./check {c} --tier quick", cwd=VERIF2)
        meta.setdefault("checks", {})[c] = {"exit": rc, "violations": [l for l in out.splitlines() if l.startswith("VIOLATION")][:6]}
finally:
    sh(f"git -C {REPO2} checkout -- .")
meta["detected_by"] = sorted(c for c, r in meta["checks"].items() if r["exit"] == 1)
json.dump(meta, open(f"{d}/meta.json", "w"), indent=1)
print(seed, {c: meta["checks"][c]["exit"] for c in checks}, "detected_by", meta["detected_by"])
