"""C07 — the GEM communication state follows the E30 establish-communications model."""
from __future__ import annotations

import threading as real_threading
import time
import types

import coqlit as L
import common
import gemrig

import secsgem.gem.communication_state_machine as csm


class FakeTimer:
    """stands in for threading.Timer inside communication_state_machine: it fires when the harness says so"""
    registry = []

    def __init__(self, interval, function, args=None, kwargs=None):
        self.interval, self.function = interval, function
        self.started = self.cancelled = self.fired = False
        self.daemon = True
        FakeTimer.registry.append(self)

    def start(self):
        self.started = True

    def cancel(self):
        self.cancelled = True

    @property
    def armed(self):
        return self.started and not self.cancelled and not self.fired

    def fire(self):
        self.fired = True
        try:
            self.function()
        except Exception:  # noqa: BLE001  (a real Timer thread would die with it)
            pass


class _Shim(types.ModuleType):
    Timer = FakeTimer

    def __getattr__(self, name):
        return getattr(real_threading, name)


def install_fake_timers():
    csm.threading = _Shim("threading_shim")


def armed(name):
    return [t for t in FakeTimer.registry if t.armed and getattr(t.function, "__name__", "") == name]


DELAY_MISMATCH = []   # retry timers that were not armed with the delay configured at that moment
TIMER_MISMATCH = []   # a reply-timeout / delay timer armed outside WAIT_CRA / WAIT_DELAY, not armed inside, or armed twice
WAITER_MISMATCH = []  # waitfor_communicating() said "communicating" although the state never was, or stayed blocked although it is
EARLY_REPORT = []     # communication reported (handler_communicating) before the S1F14 answering the peer's S1F13 was sent


def s1f14_sent(chunks):
    data = b"".join(chunks)
    while len(data) >= 14:
        n = int.from_bytes(data[:4], "big") + 4
        if data[9] == 0 and data[6] & 0x7F == 1 and data[7] == 14:
            return True
        data = data[n:]
    return False


def run_history(host, events):
    install_fake_timers()
    del FakeTimer.registry[:]
    rig = gemrig.GemRig(host=host, init="ONLINE", auto_establish=False)
    h = rig.handler
    coq_events, outs, states = [], [], []
    step = {"kind": None, "sent_before": 0, "events": events}

    def on_communicating(_data):
        if step["kind"] == "s1f13" and not s1f14_sent(rig.conn.sent[step["sent_before"]:]):
            EARLY_REPORT.append({"host": host, "events": [list(e) for e in events], "what": "handler_communicating fired while the S1F14 for the peer's S1F13 had not been sent yet"})

    h.events.handler_communicating += on_communicating
    comm_value = type(h.communication_state.current)["COMMUNICATING"].value

    def start_waiter():
        box = {"seen_from": max(len(states) - 1, 0)}      # the state at the time of the call counts
        box["thread"] = real_threading.Thread(target=lambda: box.__setitem__("result", h.waitfor_communicating(60)), daemon=True)
        box["thread"].start()
        for _ in range(200):
            if h._wait_event_list or "result" in box:
                break
            time.sleep(0.005)
        return box

    waiter = start_waiter()
    try:
        for ev in events:
            step["kind"], step["sent_before"] = ev[0], len(rig.conn.sent)
            kind = ev[0]
            raised = False
            ntimers = len(FakeTimer.registry)
            if kind == "setdelay":
                # the establish-communications delay is reconfigured at run time (settings attribute = what S2F15 on ECID 1 writes);
                # not an event of the state model: the retries that follow must use the new value
                h.settings.establish_communication_timeout = ev[1]
                continue
            if kind == "enable":
                try:
                    h.enable()
                except Exception:  # noqa: BLE001
                    raised = True
                lit = "YEnable"
            elif kind == "disable":
                try:
                    h.disable()
                except Exception:  # noqa: BLE001
                    raised = True
                lit = "YDisable"
            elif kind == "linkup":
                if rig.conn.connected or not rig.conn.enabled:
                    continue
                rig.conn.connect()
                rig.rig.settle()
                rig.conn.feed(gemrig.ctrl_frame(1, rig.next_system()))
                lit = "YLinkUp"
            elif kind == "linkdown":
                if not rig.conn.connected:
                    continue
                if len(ev) > 1 and ev[1] == "deselect":
                    # the peer deselects the session before it closes the connection: the link is lost all the same
                    rig.conn.feed(gemrig.ctrl_frame(3, rig.next_system()))
                    rig.rig.settle()
                rig.conn.peer_close()
                lit = "YLinkDown"
            elif kind == "s1f13_unsent":
                # the peer's request arrives, but the connection refuses every write (it is just going down): no S1F14 goes out
                if not rig.conn.connected:
                    continue
                h.on_commack_requested = lambda: 0
                body = rig.sf.function(1, 13)([] if not host else ["peer", "1.0"]).encode()
                rig.conn.send_ok = False
                try:
                    rig.conn.feed(gemrig.data_frame(1, 13, rig.next_system(), body, True))
                    if not rig.settle():
                        raise common.Wedged("the handler's threads did not come to rest")
                finally:
                    rig.conn.send_ok = True
                lit = "YInS1F13Unanswerable"
            elif kind in ("s1f13", "s1f14", "other"):
                if not rig.conn.connected:
                    continue
                if kind == "s1f13":
                    accept = ev[1] if len(ev) > 1 else True
                    # what the application answers (on_commack_requested is the documented place to deny a request)
                    h.on_commack_requested = (lambda: 0) if accept else (lambda: 1)
                    body = rig.sf.function(1, 13)([] if not host else ["peer", "1.0"]).encode()
                    rig.conn.feed(gemrig.data_frame(1, 13, rig.next_system(), body, True))
                    lit = f"(YInS1F13 {L.bool_(accept)})"
                elif kind == "s1f14":
                    _, commack, readable = ev
                    body = rig.sf.function(1, 14)({"COMMACK": commack, "MDLN": []}).encode() if readable else b"\x01"
                    rig.conn.feed(gemrig.data_frame(1, 14, rig.next_system(), body, False))
                    lit = f"(YInS1F14 {L.z(commack)} {L.bool_(readable)})"
                else:
                    _, reg, w = ev
                    s, f = (1, 1) if reg else (99, 1)
                    rig.conn.feed(gemrig.data_frame(s, f, rig.next_system(), b"", w))
                    lit = f"(YInOther {L.bool_(reg)} {L.bool_(w)})"
            elif kind == "t3":
                for t in armed("_on_wait_cra_timeout")[:1]:
                    t.fire()
                lit = "YT3"
            elif kind == "delay":
                for t in armed("_on_wait_comm_delay_timeout")[:1]:
                    t.fire()
                lit = "YDelay"
            else:
                raise ValueError(kind)
            if not rig.settle():
                raise common.Wedged("the handler's threads did not come to rest")
            for t in FakeTimer.registry[ntimers:]:
                if getattr(t.function, "__name__", "") == "_on_wait_comm_delay_timeout" and t.interval != h.settings.establish_communication_timeout:
                    DELAY_MISMATCH.append({"host": host, "events": [list(e) for e in events], "at_event": list(ev), "timer_interval": t.interval,
                                           "configured_delay": h.settings.establish_communication_timeout})
            name = h.communication_state.current.name
            want = (1 if name == "WAIT_CRA" else 0, 1 if name == "WAIT_DELAY" else 0)
            have = (len(armed("_on_wait_cra_timeout")), len(armed("_on_wait_comm_delay_timeout")))
            if have != want and not TIMER_MISMATCH:
                TIMER_MISMATCH.append({"host": host, "events": [list(e) for e in events], "after_event": list(ev), "state": name,
                                       "armed_reply_timeout_and_delay_timers": list(have), "expected": list(want)})
            o = []
            for b in rig.new_frames():
                sf = (b.header.stream, b.header.function)
                if sf == (1, 13):
                    o.append("YSendS1F13")
                elif sf == (1, 14):
                    o.append(f"(YSendS1F14 {L.z(int(rig.sf.decode(gemrig.HsmsMessage(b.header, b.data)).COMMACK.get()))})")
                elif sf in ((1, 2), (9, 5), (1, 0), (99, 0)):
                    o.append("YHandled")
            if raised:
                o.append("YRefused")
            coq_events.append(lit)
            outs.append(o)
            states.append(h.communication_state.current.value)
            # the blocking way of asking "are we communicating?": True only if the state was COMMUNICATING since the call began
            if states[-1] == comm_value:
                waiter["thread"].join(5)
            if "result" in waiter or states[-1] == comm_value:
                was = comm_value in states[waiter["seen_from"]:]
                if waiter.get("result") is not was and not WAITER_MISMATCH:
                    WAITER_MISMATCH.append({"host": host, "events": [list(e) for e in events], "after_event": list(ev),
                                            "waitfor_communicating_returned": waiter.get("result", "still blocked"),
                                            "state_was_COMMUNICATING_since_the_call": was, "state_now": h.communication_state.current.name})
                waiter = start_waiter()
    finally:
        try:
            if h.communication_state.current.value != 0:
                h.disable()
        except Exception:  # noqa: BLE001
            pass
        for e in list(h._wait_event_list):      # let the harness' own waiter thread go
            e.set()
        rig.stop()
    return coq_events, outs, states


def case_lit(host, events):
    ce, outs, states = run_history(host, events)
    return ("{| p_events := [" + ";".join(ce) + "]; p_outs := [" + ";".join("[" + ";".join(o) + "]" for o in outs) + "]; p_states := ["
            + ";".join(f"{s}%nat" for s in states) + "] |}")


def rand_events(rnd, n):
    evs = [("enable",)] if rnd.random() < 0.9 else []
    for _ in range(n):
        c = rnd.random()
        if c < 0.16:
            evs.append(("linkup",))
        elif c < 0.24:
            evs.append(("linkdown", "deselect") if rnd.random() < 0.3 else ("linkdown",))
        elif c < 0.30:
            evs.append(("enable",))
        elif c < 0.36:
            evs.append(("disable",))
        elif c < 0.48:
            evs.append(("s1f13", rnd.random() < 0.75) if rnd.random() < 0.85 else ("s1f13_unsent",))
        elif c < 0.66:
            evs.append(("s1f14", rnd.choice([0, 0, 0, 1, 2, 63]), rnd.random() < 0.9))
        elif c < 0.78:
            evs.append(("other", rnd.random() < 0.6, rnd.random() < 0.7))
        elif c < 0.88:
            evs.append(("t3",))
        elif c < 0.97:
            evs.append(("delay",))
        else:
            evs.append(("setdelay", rnd.choice([1, 3, 7, 20, 60])))
    return evs


DIRECTED = [
    [("enable",), ("linkup",), ("other", True, True), ("s1f14", 0, True), ("other", True, True), ("other", False, True), ("other", False, False), ("linkdown",), ("other", True, True),
     ("linkup",), ("s1f14", 0, True), ("disable",), ("enable",), ("linkup",), ("s1f13",), ("other", True, True)],
    # refused, unreadable and unanswered attempts are retried after the delay
    [("enable",), ("linkup",), ("s1f14", 1, True), ("other", True, True), ("s1f13",), ("delay",), ("s1f14", 0, False), ("delay",), ("t3",), ("t3",), ("delay",), ("s1f14", 0, True), ("other", True, True)],
    # a link lost while COMMUNICATING, then re-established: communication has to be established again
    [("enable",), ("linkup",), ("s1f14", 0, True), ("linkdown",), ("linkup",), ("other", True, True), ("s1f14", 0, True), ("other", True, True)],
    # the peer deselects before it closes: communication ends with the link, the next link needs its own exchange
    [("enable",), ("linkup",), ("s1f14", 0, True), ("other", True, True), ("linkdown", "deselect"), ("linkup",), ("other", True, True), ("s1f14", 0, True), ("other", True, True)],
    # link lost during an attempt
    [("enable",), ("linkup",), ("linkdown",), ("t3",), ("delay",), ("linkup",), ("t3",), ("delay",), ("s1f14", 0, True), ("other", True, True)],
    [("disable",), ("enable",), ("enable",), ("linkup",), ("s1f13",), ("s1f13",), ("s1f14", 5, True), ("disable",), ("disable",), ("linkup",)],
]


ALPHABET = [("linkup",), ("linkdown",), ("enable",), ("disable",), ("s1f13",), ("s1f13", False), ("s1f14", 0, True), ("s1f14", 1, True), ("s1f14", 0, False),
            ("other", True, True), ("other", False, True), ("other", True, False), ("t3",), ("delay",)]


def exhaustive(depth):
    """every sequence of `depth` events behind each of three prefixes (enabled; link up, request pending; communicating)"""
    import itertools
    prefixes = [[("enable",)], [("enable",), ("linkup",)], [("enable",), ("linkup",), ("s1f14", 0, True)], [("enable",), ("linkup",), ("t3",)]]
    for pre in prefixes:
        for seq in itertools.product(ALPHABET, repeat=depth):
            yield pre + list(seq)


def gen_cases(rnd, tier):
    cases = []
    for host in (False, True):
        for d in DIRECTED:
            cases.append(("directed", host, d))
    if tier == "thorough":
        for i, h in enumerate(exhaustive(3)):
            cases.append(("exhaustive3", i % 2 == 0, h))
    else:
        for i, h in enumerate(exhaustive(2)):
            if i % 3 == 0:
                cases.append(("exhaustive2", i % 2 == 0, h))
    n = 60 if tier == "quick" else 600
    for _ in range(n):
        cases.append(("random", rnd.random() < 0.4, rand_events(rnd, rnd.randint(2, 14 if tier == "quick" else 40))))
    return cases


HEADER = "From SG Require Import Base.Prelude Spec.E30Comm Model.GemComm Run.C07Run.\nOpen Scope Z_scope.\n"


def evaluate(lits, prefix, shard=100):
    shards, maps = [], []
    idx = list(range(len(lits)))
    for s in range(0, len(idx), shard):
        part = idx[s: s + shard]
        maps.append(part)
        shards.append("Definition cs : list c07case := [\n" + ";\n".join(lits[i] for i in part) + "\n].\nEval vm_compute in run_c07 cs.\n")
    outs = common.coq_eval_shards(prefix, HEADER, shards)
    bad, skipped, checked, errors = [], 0, 0, []
    for part, (ok, text) in zip(maps, outs):
        parsed = common.parse_triples(text) if ok else None
        if parsed is None:
            errors.append(text[-800:])
            continue
        b, sk, ch = parsed
        skipped += sk
        checked += ch
        bad.extend((part[i], m, s) for i, m, s in b)
    return bad, {"skipped_unmodelled": skipped, "spec_checked": checked, "eval_errors": errors, "observed": len(lits)}


SPEC_CODES = {31: "what was sent / handed to the application differs from what E30 admits", 32: "COMMUNICATING is reported where E30 does not establish communication",
              33: "lengths differ (rig)", 34: "the established state was left / kept against E30 (link loss, disable)", 35: "the communication state differs from the E30 reference"}
MODEL_CODES = {12: "model and implementation send / handle differently", 13: "model and implementation reach different communication states", 15: "lengths differ"}


def run(tier, replay=None):
    import json
    import logging
    from collections import Counter
    logging.disable(logging.CRITICAL)
    report = common.Report("C07", tier)
    if replay:
        doc = json.load(open(replay))
        print(json.dumps(doc, indent=1)[:3000])
        return 0
    proof = common.prove(report, "C07", ["statemachines", "gemgate"], extra_targets=["Run/C07Run.vo"])
    ok, log = common.coq_make(["Run/C07Run.vo"])
    if not ok:
        report.violation({"kind": "broken-obligation", "obligation": "Run/C07Run.vo does not build against the regenerated communication machine", "detail": log[-1500:], "also": proof.get("broken")}, False, tag="modelbuild")
        return report.finish()
    rnd = common.rng("c07")
    cases = gen_cases(rnd, tier)
    # the delay reconfigured at run time, then a refused / unanswered attempt: the retry timer must carry the new delay
    for host in (True, False):
        cases.append(("directed", host, [("enable",), ("setdelay", 3), ("linkup",), ("s1f14", 1, True), ("delay",), ("setdelay", 45), ("t3",), ("delay",), ("s1f14", 0, True)]))
        cases.append(("directed", host, [("setdelay", 2), ("enable",), ("linkup",), ("t3",), ("setdelay", 9), ("delay",), ("s1f14", 2, True)]))
        # the application denies the peer's request: COMMACK 1 goes out, nothing is established; it accepts the next one
        cases.append(("directed", host, [("enable",), ("linkup",), ("s1f13", False), ("other", True, True), ("s1f13", False), ("t3",), ("delay",), ("s1f13", True), ("other", True, True), ("s1f13", False)]))
        # the answer to the peer's request cannot be sent: nothing is established, application messages stay outside
        cases.append(("directed", host, [("enable",), ("linkup",), ("s1f13_unsent",), ("other", True, True), ("s1f13_unsent",), ("s1f13", True), ("other", True, True), ("s1f13_unsent",)]))
    del DELAY_MISMATCH[:]
    del TIMER_MISMATCH[:]
    del EARLY_REPORT[:]
    del WAITER_MISMATCH[:]
    wedged, kept, lits = [], [], []
    for c in cases:
        lit = common.guarded(lambda c=c: case_lit(c[1], c[2]), repr(c[1:]), wedged, 20.0)
        if lit is not None:
            kept.append(c)
            lits.append(lit)
    cases = kept
    common.report_wedged(report, wedged, proof)
    if DELAY_MISMATCH:
        report.violation({"kind": "counterexample", "what": "a retry was scheduled with a delay other than the establish-communications delay configured at that moment", **DELAY_MISMATCH[0],
                          "count": len(DELAY_MISMATCH)}, True, tag="delay")
    if TIMER_MISMATCH:
        report.violation({"kind": "counterexample", "what": "the retry machinery is out of step with the state: a reply-timeout timer is armed exactly in WAIT_CRA, a delay timer exactly in WAIT_DELAY, "
                          "never two (a stale timer fires a retry at the wrong time)", **TIMER_MISMATCH[0]}, True, tag="timers")
    if WAITER_MISMATCH:
        report.violation({"kind": "counterexample", "what": "waitfor_communicating() does not report what the communication state says", **WAITER_MISMATCH[0]}, True, tag="waiter")
    if EARLY_REPORT:
        report.violation({"kind": "counterexample", "what": "communication was reported as established before the S1F13/S1F14 exchange was complete", **EARLY_REPORT[0], "count": len(EARLY_REPORT)}, True, tag="early")
    bad, stats = evaluate(lits, "c07")
    spec_bad = [(i, m, sc) for i, m, sc in bad if sc >= 30]
    model_bad = [(i, m, sc) for i, m, sc in bad if m >= 10 and sc < 30]
    reported = set()
    for i, m, sc in sorted(spec_bad, key=lambda t: len(cases[t[0]][2])):
        if sc in reported:
            continue
        reported.add(sc)
        report.violation({"kind": "counterexample", "what": SPEC_CODES.get(sc, str(sc)), "role": "host" if cases[i][1] else "equipment", "events": cases[i][2],
                          "observed_case": lits[i], "model_code": m, "broken_obligation": proof.get("broken")}, True, tag=f"spec{sc}")
    if not spec_bad and not wedged:
        if model_bad:
            i, m, sc = min(model_bad, key=lambda t: len(cases[t[0]][2]))
            report.violation({"kind": "broken-correspondence", "obligation": "Model/GemComm.v no longer behaves like the GEM handler's communication handling: " + MODEL_CODES.get(m, str(m)),
                              "role": "host" if cases[i][1] else "equipment", "events": cases[i][2], "observed_case": lits[i], "count": len(model_bad)}, False, tag="model")
        elif stats["eval_errors"]:
            report.violation({"kind": "broken-correspondence", "obligation": "case evaluation failed", "detail": stats["eval_errors"][0]}, False, tag="eval")
        elif not proof["ok"]:
            report.violation({"kind": "broken-obligation", "obligation": proof["broken"], "searched": f"{len(lits)} histories on the implementation, none leaves what E30 admits"}, False, tag="proof")
    cov = report.coverage
    cov["evaluations"] = sum(len(c[2]) for c in cases)
    cov["distinct_nontrivial"] = len(set(lits))
    cov["rule"] = ("real GemEquipmentHandler and GemHostHandler on the in-memory HSMS rig with threading.Timer of communication_state_machine replaced by timers the harness fires: "
                   "random and directed histories of enable/disable, link selected/lost, inbound S1F13, S1F14 (COMMACK 0/1/2/63, readable or garbage), registered and unregistered "
                   "application messages with/without W-bit, T3 and establish-communication-delay expiries; after every event the frames sent and communication_state.current "
                   "are compared with the model and with the E30 reference")
    cov["correspondence"] = {k: v for k, v in stats.items() if k != "eval_errors"}
    cov["distribution"] = {"kinds": dict(Counter(c[0] for c in cases)), "role": dict(Counter("host" if c[1] else "equipment" for c in cases)),
                           "events": dict(Counter(e[0] for c in cases for e in c[2]))}
    cov["samples"] = [repr(c[1:])[:300] for c in cases[:: max(1, len(cases) // 5)][:5]]
    return report.finish()
