"""C19 — function structure definitions (SFDL) are read exactly as documented."""
from __future__ import annotations

import inspect

import coqlit as L
import common

from secsgem.secs import data_items
from secsgem.secs import variables as V
from secsgem.secs.variables import functions as VF

ITEMS = sorted(n for n in dir(data_items) if inspect.isclass(getattr(data_items, n)) and issubclass(getattr(data_items, n), data_items.DataItemBase)
               and n != "DataItemBase")


def text_lit(s):
    return L.nlist([ord(c) for c in s])


def ast_lit(a):
    if a[0] == "item":
        return f"(AItem {L.string(a[1])})"
    name = "None" if a[1] is None else f"(Some {L.string(a[1])})"
    return f"(AList {name} [" + ";".join(ast_lit(m) for m in a[2]) + "])"


def shape_lit(s):
    if s[0] == "item":
        return f"(ShItem {L.string(s[1])})"
    if s[0] == "arr":
        return f"(ShArray {shape_lit(s[1])})"
    return "(ShRecord [" + ";".join(f"({L.string(k)}, {shape_lit(v)})" for k, v in s[1]) + "])"


def shape_of(var):
    if isinstance(var, V.Array):
        # every element of an array is generated from the same descriptor (append, set, decode): the second and third look like the first
        shapes = [shape_of(VF.generate(var.item_decriptor)) for _ in range(3)]
        if shapes[1] != shapes[0] or shapes[2] != shapes[0]:
            return ("arr", ("item", "ELEMENTS-OF-ONE-ARRAY-DIFFER"))
        return ("arr", shapes[0])
    if isinstance(var, V.List):
        return ("rec", [(k, shape_of(v)) for k, v in var.data.items()])
    return ("item", type(var).__name__)


def rand_ast(rnd, depth, top=True):
    if depth <= 0 or (not top and rnd.random() < 0.45):
        return ("item", rnd.choice(ITEMS))
    n = rnd.choice([1, 1, 2, 2, 3, 4, 6])  # an empty list is not in the documented grammar
    name = None
    if not top and rnd.random() < 0.4:
        # (a list may be named like a data item: "< L SVID < SVID > >" is how the catalogue's own S1F3 could be written)
        name = rnd.choice(["REPORTS", "SVIDS", "DS", "X1", "DATA", "L2", "name_9", "SVID", "V", "TEXT", "ackc6"])
    return ("list", name, [rand_ast(rnd, depth - 1, top=False) for _ in range(n)])


def gap(rnd, need_ws):
    """layout between two tokens: whitespace and comments"""
    out = ""
    for _ in range(rnd.choice([0, 1, 1, 2, 3])):
        c = rnd.random()
        if c < 0.6:
            out += rnd.choice([" ", "  ", "\n", "\t", "\r\n", "\n    "])
        else:
            out += "#" + rnd.choice(["", " comment", " < L > garbage", "#"]) + rnd.choice(["\n", "\r"])
    if need_ws and not any(ch in " \t\n\r" for ch in strip_comments(out)):
        out = rnd.choice([" ", "\n", "\t"]) + out
    return out


def strip_comments(s):
    out, inc = "", False
    for ch in s:
        if ch == "#":
            inc = True
        if inc:
            if ch in "\n\r":
                inc = False
            continue
        out += ch
    return out


def tokens(a):
    if a[0] == "item":
        return ["<", a[1], ">"]
    out = ["<", "L"]
    if a[1] is not None:
        out.append(a[1])
    for m in a[2]:
        out += tokens(m)
    return [*out, ">"]


def render(toks, rnd):
    s = gap(rnd, False)
    for i, t in enumerate(toks):
        s += t
        if i + 1 < len(toks):
            both_words = t not in "<>" and toks[i + 1] not in "<>"
            s += gap(rnd, both_words)
    return s + gap(rnd, False)


ELEMENTS_DIFFER = []      # definitions whose arrays do not generate every element alike


def observe(text):
    try:
        var = VF.generate(text)
        shp = shape_of(var)
        if "ELEMENTS-OF-ONE-ARRAY-DIFFER" in repr(shp):
            ELEMENTS_DIFFER.append(text)
        return True, shp
    except RecursionError:
        raise
    except Exception:  # noqa: BLE001
        return False, ("item", "")


def case_lit(text, ast, mutation):
    ok, shp = observe(text)
    a = "None" if ast is None else f"(Some {ast_lit(ast)})"
    return "{| q_text := %s; q_ast := %s; q_mutation := %d; q_ok := %s; q_shape := %s |}" % (text_lit(text), a, mutation, L.bool_(ok), shape_lit(shp))


def catalogue_texts():
    import secsgem.secs.functions as F

    out = []
    for name in sorted(dir(F)):
        cls = getattr(F, name)
        if inspect.isclass(cls) and isinstance(getattr(cls, "_data_format", None), str):
            out.append((name, cls._data_format))
    return out


def gen_cases(rnd, tier):
    lits = []
    n = 400 if tier == "quick" else 4000
    for _ in range(n):
        a = rand_ast(rnd, rnd.choice([1, 2, 3, 4, 5]))
        toks = tokens(a)
        lits.append(("wellformed", case_lit(render(toks, rnd), a, 0)))
        c = rnd.random()
        if c < 0.3:
            closes = [i for i, t in enumerate(toks) if t == ">"]
            i = rnd.choice(closes)
            lits.append(("missing_close", case_lit(render(toks[:i] + toks[i + 1 :], rnd), None, 1)))
        elif c < 0.5:
            names = [i for i, t in enumerate(toks) if t in ITEMS and toks[i - 1] == "<"]
            if names:
                i = rnd.choice(names)
                bad = rnd.choice(["NOSUCHITEM", "SVIDX", "Svid", "L2", "<"]) if rnd.random() < 0.9 else toks[i] + "_"
                if bad != "<":
                    lits.append(("unknown_item", case_lit(render(toks[:i] + [bad] + toks[i + 1 :], rnd), None, 2)))
        elif c < 0.7:
            # a complete definition, and behind it: a list that is not closed / an unknown item / loose brackets (mutation 1 / 2)
            tail, mut = rnd.choice([(["<"], 1), (["<", "L", "<", "SVID", ">"], 1), (["<", "SVID"], 1), (["<", "NOSUCHITEM", ">"], 2), (["<", "L", "<", "XYZ9", ">", ">"], 2),
                                    ([">"], 1), ([">", ">"], 1), (["<", "SVID", ">", "<"], 1)])
            lits.append(("trailing", case_lit(render(toks + tail, rnd), None, mut)))
        elif c < 0.8:
            # arbitrary token soup: compared with the model only
            soup = [rnd.choice(["<", ">", "L", "SVID", "X", "l", "svid", "#c\n"]) for _ in range(rnd.randint(0, 12))]
            lits.append(("soup", case_lit(" ".join(soup), None, 0)))
    # every definition with at most 4 (quick) / 5 (thorough) nodes over two data items and one list name
    def small(nodes, top):
        """all ASTs with exactly `nodes` nodes"""
        out = []
        if nodes == 1 and not top:
            return [("item", "SVID"), ("item", "CEID")]
        if nodes < 1:
            return out
        # a list with members using nodes-1 nodes
        def splits(total, parts):
            if parts == 1:
                yield [total]
                return
            for first in range(1, total - parts + 2):
                for rest in splits(total - first, parts - 1):
                    yield [first] + rest
        members = []
        for parts in range(1, nodes):
            for sp in splits(nodes - 1, parts):
                combos = [[]]
                for sz in sp:
                    combos = [c + [m] for c in combos for m in small(sz, False)]
                members.extend(combos)
        for ms in members:
            for name in (None, "NM"):
                out.append(("list", name, ms))
        return out

    limit = 5 if tier == "thorough" else 4
    for nodes in range(2, limit + 1):
        for a in small(nodes, True):
            lits.append(("small", case_lit(render(tokens(a), rnd), a, 0)))
    # the documentation's own examples
    docs = [
        ("list", None, [("item", "TRID"), ("item", "DSPER"), ("item", "TOTSMP"), ("item", "REPGSZ"), ("list", "SVIDS", [("item", "SVID")])]),
        ("list", None, [("item", "TRID"), ("item", "DSPER"), ("item", "TOTSMP"), ("item", "REPGSZ"), ("list", None, [("item", "SVID")])]),
        ("list", None, [("item", "DATAID"), ("list", "REPORTS", [("list", None, [("item", "RPTID"), ("list", None, [("item", "VID")])])])]),
        ("list", None, [("list", None, [("item", "VID"), ("item", "DVVALNAME"), ("item", "UNITS")])]),
        ("list", None, [("item", "DATAID"), ("item", "CEID"), ("list", "DS", [("list", None, [("item", "DSID"), ("list", "DV", [("list", None, [("item", "DVNAME"), ("item", "DVVAL")])])])])]),
    ]
    for a in docs:
        lits.append(("doc_example", case_lit(render(tokens(a), rnd), a, 0)))
    for name, text in catalogue_texts():
        lits.append(("catalogue", case_lit(text, None, 0)))
    # texts that differ only in the KIND of whitespace behind a comment - a line break ends the comment, a blank does not - are different
    # definitions: the member behind the comment is a member, or part of the comment, or (on one line) the closing bracket is commented
    # away.  Read one after the other in one process, in every order, each yields its own structure
    for _ in range(6 if tier == "quick" else 40):
        k = rnd.randint(2, 4)
        items = rnd.sample(sorted(ITEMS), k)
        j = rnd.randint(1, k - 1)
        t1 = "\n".join(["< L"] + [f" < {it} >" + (" # note" if i == j - 1 else "") for i, it in enumerate(items)] + [">"])
        t2 = t1.replace(" # note\n", " # note ", 1)
        t3 = t1.replace("\n", " ")
        a1 = ("list", None, [("item", it) for it in items])
        a2 = ("list", None, [("item", it) for i, it in enumerate(items) if i != j])
        trio = [(t1, a1, 0), (t2, a2, 0), (t3, None, 1)]
        rnd.shuffle(trio)
        for text, a, mut in trio + trio[:1]:
            lits.append(("comment_alias", case_lit(text, a, mut)))
    # token adjacency through a comment only
    lits.append(("comment_glue", case_lit("< L#c\nNAME < SVID > < CEID > >", ("list", "NAME", [("item", "SVID"), ("item", "CEID")]), 0)))
    return lits


HEADER = "From SG Require Import Base.Prelude Base.Kinds Spec.SfdlDoc Model.Sfdl Run.C19Run.\nOpen Scope N_scope.\n"


def evaluate(lits, prefix, shard=150):
    shards, maps = [], []
    idx = list(range(len(lits)))
    for s in range(0, len(idx), shard):
        part = idx[s : s + shard]
        maps.append(part)
        shards.append("Definition cs : list c19case := [\n" + ";\n".join(lits[i][1] for i in part) + "\n].\nEval vm_compute in run_c19 cs.\n")
    outs = common.coq_eval_shards(prefix, HEADER, shards)
    bad, skipped, checked, errors = [], 0, 0, []
    for part, (ok, text) in zip(maps, outs):
        parsed = common.parse_triples(text) if ok else None
        if parsed is None:
            errors.append(text[-800:])
            continue
        b, sk, ch = parsed
        skipped += sk
        checked += ch
        bad.extend((part[i], m, s) for i, m, s in b)
    return bad, {"skipped_unmodelled": skipped, "spec_checked": checked, "eval_errors": errors, "observed": len(lits)}


SPEC_CODES = {30: "a well-formed definition was rejected", 31: "the generated structure does not have the documented shape / keys",
              32: "a definition with a missing closing bracket or an unknown data item was accepted"}
MODEL_CODES = {10: "implementation accepted a text the model rejects", 11: "implementation rejected a text the model accepts", 12: "generated structure differs from the model"}

KNOWN_WITNESS = ("< L < L DS < CEED > < L < ECV > < V > > > < COLCT > >",
                 ("list", None, [("list", "DS", [("item", "CEED"), ("list", None, [("item", "ECV"), ("item", "V")])]), ("item", "COLCT")]))


def doc_shape(a):
    """harness-side mirror of Spec/SfdlDoc.doc_shape, used only to replay the known-finding witness"""
    def key(m):
        if m[0] == "item":
            return m[1]
        if m[1] is not None:
            return m[1]
        if len(m[2]) == 1 and m[2][0][0] == "item":
            return m[2][0][1]
        if len(m[2]) == 1 and m[2][0][0] == "list" and m[2][0][1] is not None:
            return m[2][0][1]
        return "DATA"
    if a[0] == "item":
        return ("item", a[1])
    if len(a[2]) == 1:
        return ("arr", doc_shape(a[2][0]))
    return ("rec", [(key(m), doc_shape(m)) for m in a[2]])


def run(tier, replay=None):
    import c16
    report = common.Report("C19", tier)
    if replay:
        import json
        print(json.dumps(json.load(open(replay)), indent=1)[:3000])
        return 0
    proof = common.prove(report, "C19", ["varconsts", "jis8", "dataitems"], extra_targets=["Run/C19Run.vo"])
    ok, log = common.coq_make(["Run/C19Run.vo"])
    if not ok:
        report.violation({"kind": "broken-obligation", "obligation": "model Run/C19Run.vo does not build against the regenerated tables", "detail": log[-1500:], "also": proof.get("broken")}, False, tag="modelbuild")
        return report.finish()
    rnd = common.rng("c19")
    lits = gen_cases(rnd, tier)
    for text in ELEMENTS_DIFFER[:2]:
        report.violation({"kind": "counterexample", "what": "the elements of one array are not generated alike: the first element of the open list has the documented structure, "
                          "a later one (append, set, decode use the same descriptor again) has other keys", "definition": text, "broken_obligation": proof.get("broken")}, True, tag="elements")
    bad, stats = evaluate(lits, "c19")
    c16.decide_lits(report, "C19", lits, bad, stats, proof, SPEC_CODES, MODEL_CODES)
    listed = {e["id"]: e for e in common.known_findings("C19")}
    entry = listed.get("C19-name-handdown")
    if entry:
        ok_, shp = observe(KNOWN_WITNESS[0])
        still = (not ok_) or shp != doc_shape(KNOWN_WITNESS[1])
        report.coverage["known_findings_replayed"] = [{"id": "C19-name-handdown", "status": entry.get("status"), "still_fails": still, "observed": repr(shp)}]
        if entry.get("status") == "open" and still:
            report.known("C19-name-handdown: '< L < L DS < CEED > < L < ECV > < V > > > < COLCT > >' keys the unnamed inner list 'DS' (the parent's name is handed down) instead of 'DATA'")
        elif entry.get("status") == "fixed" and still:
            report.violation({"kind": "counterexample", "what": "fixed finding C19-name-handdown fails again", "case": KNOWN_WITNESS[0]}, True, tag="regress")
    # members with equal keys: '< L < MDLN > < SOFTREV > < MDLN > >' has three members, the record is due three fields
    dup_text = "< L < MDLN > < SOFTREV > < MDLN > >"
    ok_, shp = observe(dup_text)
    nfields = repr(shp).count("MDLN") + repr(shp).count("SOFTREV") if ok_ else None
    dup = {"text": dup_text, "accepted": ok_, "shape": repr(shp)[:200]}
    report.coverage["duplicate_keys"] = dup
    lost = ok_ and isinstance(shp, tuple) and shp and shp[0] == "rec" and len(shp[1]) < 3
    if lost:
        entry = listed.get("C19-duplicate-keys")
        if entry and entry.get("status") == "open":
            report.known(f"C19-duplicate-keys: {entry['text']} ({dup_text} -> {repr(shp)[:120]})")
        else:
            report.violation({"kind": "counterexample", "what": "a list with three members was generated as a record with fewer fields (members with equal keys)", **dup}, True, tag="dupkeys")
    import hashlib
    from collections import Counter
    cov = report.coverage
    cov["evaluations"] = len(lits)
    cov["distinct_nontrivial"] = len({hashlib.sha256(l[1].encode()).hexdigest() for l in lits if "ShRecord" in l[1] or "ShArray" in l[1]})
    cov["rule"] = ("definition texts rendered from random ASTs over the catalogue's data item names (depth 1-5, 1-6 members, 40% of nested lists named) with random "
                   "whitespace/comment layout; bracket deletions and unknown-name substitutions (must be rejected); random token soup (model only); the documentation's "
                   "examples; all catalogue SFDL texts; observed: generate(text) structure (arrays/records/keys/leaf classes); non-trivial = a list structure was generated")
    cov["correspondence"] = {k: v for k, v in stats.items() if k != "eval_errors"}
    cov["distribution"] = dict(Counter(k for k, _ in lits))
    cov["samples"] = [l[1][:300] for l in lits[:: max(1, len(lits) // 5)][:5]]
    return report.finish()
