"""Translator: class-level constants of secsgem.secs.variables.* -> coq/Gen/VarConsts.v.

Fail-closed: any shape that is not the expected literal aborts with TranslationError.
"""
from __future__ import annotations

import ast
import os

from astutil import (
    GEN_DIR,
    TranslationError,
    class_assigns,
    coq_str,
    coq_z,
    double_bits,
    find_class,
    find_method,
    lit_int,
    lit_number,
    lit_str,
    name_id,
    name_list,
    parse,
    write_if_changed,
)

VARDIR = "secsgem/secs/variables"
NUMS = ["U1", "U2", "U4", "U8", "I1", "I2", "I4", "I8", "F4", "F8"]
STRUCT_CODES = {"B", "b", "H", "h", "L", "l", "Q", "q", "f", "d", "I", "i"}


def num_class(name: str) -> dict:
    rel = f"{VARDIR}/{name.lower()}.py"
    cls = find_class(parse(rel), name, rel)
    if [name_id(b, rel) for b in cls.bases] != ["BaseNumber"]:
        raise TranslationError(f"{rel}: base class is not BaseNumber")
    asg = class_assigns(cls)
    need = ["format_code", "text_code", "_base_type", "_min", "_max", "_bytes", "_struct_code", "preferred_types"]
    for key in need:
        if key not in asg:
            raise TranslationError(f"{rel}: missing {key}")
    extra = set(asg) - set(need)
    if extra:
        raise TranslationError(f"{rel}: unexpected class attributes {sorted(extra)}")
    if any(isinstance(n, ast.FunctionDef) for n in cls.body):
        raise TranslationError(f"{rel}: class {name} defines methods; model covers BaseNumber only")
    base = name_id(asg["_base_type"], rel)
    if base not in ("int", "float"):
        raise TranslationError(f"{rel}: _base_type {base}")
    sc = lit_str(asg["_struct_code"], rel)
    if sc not in STRUCT_CODES:
        raise TranslationError(f"{rel}: struct code {sc!r}")
    return {
        "name": name,
        "fc": lit_int(asg["format_code"], rel),
        "text": lit_str(asg["text_code"], rel),
        "base": base,
        "min": lit_number(asg["_min"], rel),
        "max": lit_number(asg["_max"], rel),
        "bytes": lit_int(asg["_bytes"], rel),
        "sc": sc,
        "pref": name_list(asg["preferred_types"], rel),
    }


def simple_class(fname: str, name: str, base: str, keys: list[str]) -> dict:
    rel = f"{VARDIR}/{fname}.py"
    cls = find_class(parse(rel), name, rel)
    if [name_id(b, rel) for b in cls.bases] != [base]:
        raise TranslationError(f"{rel}: base class is not {base}")
    asg = class_assigns(cls)
    for key in keys:
        if key not in asg:
            raise TranslationError(f"{rel}: missing {key}")
    return asg


def dynamic_tables() -> dict:
    rel = f"{VARDIR}/dynamic.py"
    mod = parse(rel)
    dyn = find_class(mod, "Dynamic", rel)
    dec = find_method(dyn, "decode")
    tables = [
        n.value
        for n in ast.walk(dec)
        if isinstance(n, ast.Assign)
        and len(n.targets) == 1
        and isinstance(n.targets[0], ast.Name)
        and n.targets[0].id == "format_codes"
    ]
    if len(tables) != 1 or not isinstance(tables[0], ast.Dict):
        raise TranslationError(f"{rel}: Dynamic.decode format_codes dict not found")
    fmt = []
    for key, val in zip(tables[0].keys, tables[0].values):
        if not (isinstance(key, ast.Attribute) and key.attr == "format_code"):
            raise TranslationError(f"{rel}: format_codes key shape")
        kname = name_id(key.value, rel)
        vname = name_id(val, rel)
        if kname != vname:
            raise TranslationError(f"{rel}: format_codes maps {kname}.format_code to {vname}")
        fmt.append(vname)
    match = find_method(dyn, "_match_type")
    lists = [
        n.value
        for n in ast.walk(match)
        if isinstance(n, ast.Assign)
        and len(n.targets) == 1
        and isinstance(n.targets[0], ast.Name)
        and n.targets[0].id == "var_types"
        and isinstance(n.value, ast.List)
    ]
    if len(lists) != 1:
        raise TranslationError(f"{rel}: _match_type default var_types list not found")
    default_types = name_list(lists[0], rel)
    anyv = find_class(mod, "ANYVALUE", rel)
    init = find_method(anyv, "__init__")
    calls = [
        n
        for n in ast.walk(init)
        if isinstance(n, ast.Call) and isinstance(n.func, ast.Attribute) and n.func.attr == "__init__"
    ]
    if len(calls) != 1 or not calls[0].args:
        raise TranslationError(f"{rel}: ANYVALUE.__init__ super call not found")
    any_types = name_list(calls[0].args[0], rel)
    return {"fmt": fmt, "default": default_types, "any": any_types}


KIND = {
    "Array": "DArr",
    "Binary": "DScal KBin",
    "Boolean": "DScal KBool",
    "String": "DScal KStr",
    "JIS8": "DScal KJis",
}
for _n in NUMS:
    KIND[_n] = f"DScal (KNum {_n})"


def kinds(names: list[str], what: str) -> str:
    out = []
    for nm in names:
        if nm not in KIND:
            raise TranslationError(f"{what}: unknown variable class {nm}")
        out.append(KIND[nm])
    return "[" + "; ".join(out) + "]"


def generate() -> str:
    lines = [
        "(* GENERATED by harness/gen_varconsts.py from /repo/secsgem/secs/variables — do not edit. *)",
        "From SG Require Import Base.Prelude Base.Kinds.",
        "Open Scope N_scope.",
        "",
    ]
    nums = [num_class(n) for n in NUMS]
    for field, typ, fmt in [
        ("fc", "N", lambda c: str(c["fc"])),
        ("nbytes", "nat", lambda c: f"{c['bytes']}%nat"),
        ("scode", "struct_code", lambda c: "SC_" + {"B": "B", "b": "b_", "H": "H", "h": "h_", "L": "L", "l": "l_", "Q": "Q", "q": "q_", "f": "f_", "d": "d_", "I": "L", "i": "l_"}[c["sc"]]),
        ("base_is_float", "bool", lambda c: "true" if c["base"] == "float" else "false"),
        ("text_code", "string", lambda c: coq_str(c["text"])),
    ]:
        lines.append(f"Definition num_{field} (k : num_kind) : {typ} :=")
        lines.append("  match k with")
        for c in nums:
            lines.append(f"  | {c['name']} => {fmt(c)}")
        lines.append("  end.")
        lines.append("")
    # bounds: ints as Z; floats as the bit pattern of the double the literal denotes
    lines.append("(* _min/_max: for int types the integer; for float types the literal's binary64 bit pattern *)")
    lines.append("Definition num_min_int (k : num_kind) : Z :=")
    lines.append("  match k with")
    for c in nums:
        lines.append(f"  | {c['name']} => {coq_z(c['min']) if c['base']=='int' else '0%Z'}")
    lines.append("  end.")
    lines.append("Definition num_max_int (k : num_kind) : Z :=")
    lines.append("  match k with")
    for c in nums:
        lines.append(f"  | {c['name']} => {coq_z(c['max']) if c['base']=='int' else '0%Z'}")
    lines.append("  end.")
    for which in ("min", "max"):
        lines.append(f"Definition num_{which}_flt (k : num_kind) : N :=")
        lines.append("  match k with")
        for c in nums:
            # an int literal bound on a float class compares as the same real number
            val = c[which]
            if c["base"] == "float":
                bits = double_bits(val)
                if float(val) != val:
                    raise TranslationError(f"{c['name']}._{which}: not exactly representable")
                lines.append(f"  | {c['name']} => {bits} (* {float(val).hex()} *)")
            else:
                lines.append(f"  | {c['name']} => 0")
        lines.append("  end.")
    # int bounds on float classes / float bounds on int classes are not supported
    for c in nums:
        for which in ("min", "max"):
            if c["base"] == "int" and type(c[which]) is not int:
                raise TranslationError(f"{c['name']}._{which}: float bound on int class")
    lines.append("")
    lines.append("Definition num_preferred_is (k : num_kind) : string :=")
    lines.append("  match k with")
    for c in nums:
        if len(c["pref"]) != 1 or c["pref"][0] not in ("int", "float"):
            raise TranslationError(f"{c['name']}.preferred_types {c['pref']}")
        lines.append(f"  | {c['name']} => {coq_str(c['pref'][0])}")
    lines.append("  end.")
    lines.append("")

    bina = simple_class("binary", "Binary", "Base", ["format_code", "text_code", "preferred_types"])
    boo = simple_class("boolean", "Boolean", "Base", ["format_code", "text_code", "preferred_types", "_true_strings", "_false_strings"])
    stri = simple_class("string", "String", "BaseText", ["format_code", "text_code", "preferred_types", "coding"])
    jis = simple_class("jis8", "JIS8", "BaseText", ["format_code", "text_code", "preferred_types", "coding"])
    arr = simple_class("array", "Array", "Base", ["format_code", "text_code", "preferred_types"])
    lst = simple_class("list_type", "List", "Base", ["format_code", "text_code", "preferred_types"])
    lines.append(f"Definition fc_Binary : N := {lit_int(bina['format_code'], 'Binary')}.")
    lines.append(f"Definition fc_Boolean : N := {lit_int(boo['format_code'], 'Boolean')}.")
    lines.append(f"Definition fc_String : N := {lit_int(stri['format_code'], 'String')}.")
    lines.append(f"Definition fc_JIS8 : N := {lit_int(jis['format_code'], 'JIS8')}.")
    lines.append(f"Definition fc_Array : N := {lit_int(arr['format_code'], 'Array')}.")
    lines.append(f"Definition fc_List : N := {lit_int(lst['format_code'], 'List')}.")
    for nm, asg in (("Binary", bina), ("Boolean", boo), ("String", stri), ("JIS8", jis), ("Array", arr), ("List", lst)):
        lines.append(f"Definition text_code_{nm} : string := {coq_str(lit_str(asg['text_code'], nm))}.")
    def coding(node, what):
        raw = lit_str(node, what)
        norm = {"latin1": "latin-1", "latin-1": "latin-1", "iso-8859-1": "latin-1", "jis_8": "jis_8"}.get(raw.lower())
        if norm is None:
            raise TranslationError(f"{what}: codec {raw!r} is not modelled")
        return coq_str(norm)

    lines.append(f"Definition coding_String : string := {coding(stri['coding'], 'String.coding')}.")
    lines.append(f"Definition coding_JIS8 : string := {coding(jis['coding'], 'JIS8.coding')}.")
    if name_list(bina["preferred_types"], "Binary") != ["bytes", "bytearray"]:
        raise TranslationError("Binary.preferred_types changed")
    if name_list(boo["preferred_types"], "Boolean") != ["bool"]:
        raise TranslationError("Boolean.preferred_types changed")
    for nm, asg in (("String", stri), ("JIS8", jis)):
        if name_list(asg["preferred_types"], nm) != ["str"]:        # (bytes are Binary's: D71)
            raise TranslationError(f"{nm}.preferred_types changed")
    if name_list(arr["preferred_types"], "Array") != ["list"] or name_list(lst["preferred_types"], "List") != ["dict"]:
        raise TranslationError("Array/List.preferred_types changed")

    def strlist(node, what):
        if not isinstance(node, ast.List):
            raise TranslationError(f"{what}: list expected")
        return "[" + "; ".join(coq_str(lit_str(e, what)) for e in node.elts) + "]"

    lines.append(f"Definition bool_true_strings : list string := {strlist(boo['_true_strings'], 'Boolean._true_strings')}.")
    lines.append(f"Definition bool_false_strings : list string := {strlist(boo['_false_strings'], 'Boolean._false_strings')}.")
    lines.append("")
    dyn = dynamic_tables()
    lines.append("(* Dynamic.decode's format-code table (classes whose format_code is a key), *)")
    lines.append("(* Dynamic._match_type's default type order, ANYVALUE's allowed types. *)")
    lines.append(f"Definition dyn_decode_classes : list dkind := {kinds(dyn['fmt'], 'format_codes')}.")
    lines.append(f"Definition dyn_default_types : list dkind := {kinds(dyn['default'], 'var_types')}.")
    lines.append(f"Definition anyvalue_types : list dkind := {kinds(dyn['any'], 'ANYVALUE')}.")
    lines.append("")
    return "\n".join(lines)


def main() -> int:
    text = generate()
    changed = write_if_changed(os.path.join(GEN_DIR, "VarConsts.v"), text)
    print(f"gen_varconsts: {'updated' if changed else 'unchanged'}")
    return 0


if __name__ == "__main__":
    import sys

    try:
        sys.exit(main())
    except TranslationError as exc:
        print(f"TRANSLATION-ERROR gen_varconsts: {exc}")
        sys.exit(3)
