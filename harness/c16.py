"""C16 — SECS-I blocks split, checksum and reassemble any message body without loss."""
from __future__ import annotations

import coqlit as L
import common

from secsgem.secsi.header import SecsIHeader
from secsgem.secsi.message import SecsIBlock, SecsIMessage
from secsgem.secsi.protocol import SecsIProtocol


def hdr_lit(h):
    """h = dict(system, device_id, stream, function, block, r, w, e)"""
    return ("{| s_system := %s; s_device := %s; s_stream := %s; s_function := %s; s_block := %s; s_r := %s; s_w := %s; s_e := %s |}"
            % (L.z(h["system"]), L.z(h["device_id"]), L.z(h["stream"]), L.z(h["function"]), L.z(h["block"]), L.bool_(h["r"]), L.bool_(h["w"]), L.bool_(h["e"])))


def mk_header(h):
    return SecsIHeader(h["system"], h["device_id"], h["stream"], h["function"], h["block"], h["r"], h["w"], h["e"])


def hdr_of(obj):
    return dict(system=obj.system, device_id=obj.device_id, stream=obj.stream, function=obj.function, block=obj.block,
                r=bool(obj.from_equipment), w=bool(obj.require_response), e=bool(obj.last_block))


def rand_hdr(rnd, valid=True):
    def pick(bits):
        c = rnd.random()
        hi = (1 << bits) - 1
        if c < 0.3:
            return rnd.choice([0, 1, hi, hi - 1, hi >> 1])
        return rnd.randint(0, hi)

    h = dict(system=pick(32), device_id=pick(15), stream=pick(7), function=pick(8), block=pick(15),
             r=rnd.random() < 0.5, w=rnd.random() < 0.5, e=rnd.random() < 0.5)
    if not valid:
        key = rnd.choice(["system", "device_id", "stream", "function", "block"])
        bits = {"system": 32, "device_id": 15, "stream": 7, "function": 8, "block": 15}[key]
        h[key] = rnd.choice([1 << bits, (1 << bits) + 5, -1, (1 << (bits + 1)) - 1, 1 << 40])
    return h


def body_of(n, rnd):
    if n > 600:
        pat = bytes(rnd.randint(0, 255) for _ in range(3))
        return (pat * (n // 3 + 1))[:n]
    return bytes(rnd.randint(0, 255) for _ in range(n))


def obs_hdr(h):
    try:
        enc = mk_header(h).encode()
    except Exception:  # noqa: BLE001
        return f"(CHdr {hdr_lit(h)} None None)"
    try:
        dec = hdr_lit(hdr_of(SecsIHeader.decode(enc)))
        return f"(CHdr {hdr_lit(h)} (Some {L.nlist(enc)}) (Some {dec}))"
    except Exception:  # noqa: BLE001
        return f"(CHdr {hdr_lit(h)} (Some {L.nlist(enc)}) None)"


_HISTORY = [0]


def used_header(h):
    """A header object with a history: every second one was the source of updated_with() calls before (a reply header derived from it, a
    copy with other system bytes ...).  Deriving headers from a header must not change what is built from the header itself."""
    obj = mk_header(h)
    _HISTORY[0] += 1
    if _HISTORY[0] % 2 == 0:
        obj.updated_with(function=(h["function"] + 1) % 256, require_response=not h["w"], from_equipment=not h["r"])
        obj.updated_with(system=(h["system"] + 1) % 2**32, stream=(h["stream"] + 1) % 128, device_id=(h["device_id"] + 1) % 32768, block=7, last_block=False)
    return obj


def obs_msg(h, body):
    try:
        msg = SecsIMessage(used_header(h), body)
        parts = []
        for blk in msg.blocks:
            try:
                enc = L.opt(blk.encode(), L.nlist)
            except Exception:  # noqa: BLE001
                enc = "None"
            parts.append(f"({hdr_lit(hdr_of(blk.header))}, {L.nlist(blk.data)}, {enc})")
        return f"(CMsg {hdr_lit(h)} {L.nlist(body)} (Some {L._runs(parts, lambda s: s)}))"
    except Exception:  # noqa: BLE001
        return f"(CMsg {hdr_lit(h)} {L.nlist(body)} None)"


def obs_dec(h, data, pos, newbyte):
    enc = bytearray(SecsIBlock(mk_header(h), data).encode())
    if pos >= len(enc):
        return None
    enc[pos] = newbyte
    dummy = hdr_lit(h)
    try:
        blk = SecsIBlock.decode(bytes(enc))
    except Exception:  # noqa: BLE001
        return f"(CDec {hdr_lit(h)} {L.nlist(data)} {pos}%nat {newbyte}%N 0%N ({dummy}, []))"
    if blk is None:
        return f"(CDec {hdr_lit(h)} {L.nlist(data)} {pos}%nat {newbyte}%N 1%N ({dummy}, []))"
    return f"(CDec {hdr_lit(h)} {L.nlist(data)} {pos}%nat {newbyte}%N 2%N ({hdr_lit(hdr_of(blk.header))}, {L.nlist(blk.data)}))"


def corruption_sweep(rnd, tier):
    """EVERY single-byte change (every position behind the length byte, every other byte value) of a few encoded blocks through
    SecsIBlock.decode: none may be accepted.  Judged here (the statement needs no model: 'never accepted'); the sampled CDec cases
    above additionally go through the model."""
    accepted, total = [], 0
    blocks = [(rand_hdr(rnd), body_of(n, rnd)) for n in ((0, 3, 20) if tier == "quick" else (0, 1, 3, 20, 100, 244))]
    for h, data in blocks:
        enc = SecsIBlock(mk_header(h), data).encode()
        for pos in range(1, len(enc)):
            for nb in range(256):
                if nb == enc[pos]:
                    continue
                total += 1
                bad = bytearray(enc)
                bad[pos] = nb
                try:
                    blk = SecsIBlock.decode(bytes(bad))
                except Exception:  # noqa: BLE001
                    blk = None
                if blk is not None:
                    accepted.append({"block_hex": enc.hex(), "position": pos, "old": enc[pos], "new": nb})
    return total, accepted


def obs_reasm(blocks):
    proto = object.__new__(SecsIProtocol)
    proto._incomplete_messages = {}
    outs = []
    for h, d in blocks:
        msg = proto._add_message_block(SecsIBlock(mk_header(h), d))
        if msg is None:
            outs.append("None")
        else:
            outs.append(f"(Some ({hdr_lit(hdr_of(msg.header))}, {L.nlist(msg.data)}))")
    bl = "[" + ";".join(f"({hdr_lit(h)}, {L.nlist(d)})" for h, d in blocks) + "]"
    return f"(CReasm {bl} [" + ";".join(outs) + "])"


def split_py(h, body):
    """harness-side splitter used only to build reassembly inputs (the reference judges the outputs)."""
    chunks = [body[i : i + 244] for i in range(0, len(body), 244)] or [b""]
    return [(dict(h, block=i + 1, e=(i + 1 == len(chunks))), c) for i, c in enumerate(chunks)]


def gen_cases(rnd, tier):
    lits = []
    n_h = 300 if tier == "quick" else 3000
    for _ in range(n_h):
        lits.append(("hdr", obs_hdr(rand_hdr(rnd, valid=rnd.random() < 0.85))))
    lens = [0, 1, 243, 244, 245, 487, 488, 489, 732, 976]
    lens += [rnd.randint(0, 3000) for _ in range(25 if tier == "quick" else 150)]
    lens += [244 * 256 + 1]      # block numbers that need the second byte of the block-number field
    if tier == "thorough":
        lens += [244 * 255, 244 * 1000, 20000, 244 * 4000 + 7]
    for n in lens:
        lits.append(("msg", obs_msg(rand_hdr(rnd), body_of(n, rnd))))
    lits.append(("msg", obs_msg(rand_hdr(rnd, valid=False), b"abc")))
    # every single-byte corruption position of a few blocks x several replacement values
    for n in ([0, 1, 5, 244] if tier == "quick" else [0, 1, 2, 5, 17, 100, 243, 244]):
        h = rand_hdr(rnd)
        data = body_of(n, rnd)
        enc = SecsIBlock(mk_header(h), data).encode()
        for pos in range(len(enc)):
            vals = {enc[pos], (enc[pos] + 1) % 256, enc[pos] ^ 0x80, rnd.randint(0, 255)}
            if tier == "thorough":
                vals |= {0, 255, (enc[pos] - 1) % 256}
            for nb in sorted(vals):
                lit = obs_dec(h, data, pos, nb)
                if lit:
                    lits.append(("dec", lit))
    # reassembly of interleaved messages with distinct system bytes
    for _ in range(40 if tier == "quick" else 400):
        k = rnd.randint(1, 4)
        msgs = []
        used = set()
        for _m in range(k):
            h = rand_hdr(rnd)
            while h["system"] in used:
                h["system"] = rnd.randint(0, 2**32 - 1)
            used.add(h["system"])
            msgs.append(split_py(h, body_of(rnd.choice([0, 1, 244, 245, 488, 500, 733]), rnd)))
        # sometimes two of the messages are distinct transactions that carry the SAME system bytes: a primary of the peer (W-bit) and
        # the reply to one of our requests (system bytes are chosen by each side for its own primaries)
        if k >= 2 and rnd.random() < 0.35:
            h0 = msgs[0][0][0]
            h1 = dict(msgs[1][0][0], system=h0["system"], w=not h0["w"], function=(h0["function"] + 1) % 256)
            msgs[1] = split_py(h1, body_of(rnd.choice([245, 300, 500]), rnd))
        order = []
        idx = [0] * k
        while any(idx[i] < len(msgs[i]) for i in range(k)):
            i = rnd.choice([i for i in range(k) if idx[i] < len(msgs[i])])
            order.append(msgs[i][idx[i]])
            idx[i] += 1
        # sometimes an attempt was abandoned before: the first blocks of one of the messages came once already (a later block was
        # refused and the sender starts over with the same system bytes)
        multi = [m for m in msgs if len(m) > 1]
        if multi and rnd.random() < 0.35:
            m = rnd.choice(multi)
            order = m[: rnd.randint(1, len(m) - 1)] + order
        # sometimes the same system id is reused by a second message after the first completed
        if rnd.random() < 0.3:
            order += split_py(dict(msgs[0][0][0], stream=5), body_of(300, rnd))
        lits.append(("reasm", obs_reasm(order)))
    # many transactions open at the same time (17 .. 40 two- and three-block messages): first blocks of all, then the rest, in two orders
    for k in ([17, 33] if tier == "quick" else [17, 18, 24, 33, 40, 64]):
        msgs = []
        for m in range(k):
            h = rand_hdr(rnd)
            h["system"] = 1000 + m
            msgs.append(split_py(h, body_of(rnd.choice([245, 300, 489]), rnd)))
        order = [m[0] for m in msgs] + [b for m in (msgs if k % 2 else reversed(msgs)) for b in m[1:]]
        lits.append(("reasm", obs_reasm(order)))
    return lits


HEADER = "From SG Require Import Base.Prelude Base.Kinds Model.Secs2 Model.Frames Run.C16Run.\nOpen Scope N_scope.\n"


def evaluate(lits, prefix, shard=300):
    shards, maps = [], []
    idx = list(range(len(lits)))
    for s in range(0, len(idx), shard):
        part = idx[s : s + shard]
        maps.append(part)
        shards.append("Definition cs : list c16case := [\n" + ";\n".join(lits[i][1] for i in part) + "\n].\nEval vm_compute in run_c16 cs.\n")
    outs = common.coq_eval_shards(prefix, HEADER, shards)
    bad, skipped, checked, errors = [], 0, 0, []
    for part, (ok, text) in zip(maps, outs):
        parsed = common.parse_triples(text) if ok else None
        if parsed is None:
            errors.append(text[-800:])
            continue
        b, sk, ch = parsed
        skipped += sk
        checked += ch
        bad.extend((part[i], m, s) for i, m, s in b)
    return bad, {"skipped_unmodelled": skipped, "spec_checked": checked, "eval_errors": errors, "observed": len(lits)}


SPEC_CODES = {
    30: "an in-range header/message could not be encoded", 31: "encoded bytes differ from the SEMI E4 layout",
    32: "a valid encoding was rejected", 34: "header fields changed in an encode/decode round trip",
    35: "split blocks are not numbered 1..n with at most 244 data bytes, end bit on the last only and the other fields preserved",
    36: "the data of the split blocks does not concatenate to the message body",
    37: "a block with an altered byte was accepted as valid",
    38: "reassembly of interleaved blocks did not return the original header and body",
}
MODEL_CODES = {10: "header encoding differs from the model", 11: "header decoding differs from the model", 12: "message construction failed unexpectedly",
               13: "split blocks differ from the model", 14: "block encodings differ from the model", 15: "decode raised/returned differently from the model",
               16: "decode (checksum verdict) differs from the model", 17: "decoded block differs from the model", 18: "reassembly outputs differ from the model"}


def block_limit_probe():
    """the 32767-block limit: a body of 32767 x 244 bytes is split into blocks 1..32767, the end bit on the last one only; one byte more
    cannot be numbered (block 32768 would read as block 0 with the end bit) and is refused"""
    from secsgem.secsi.header import SecsIHeader
    from secsgem.secsi.message import SecsIMessage
    hdr = SecsIHeader(7, 1, 1, 1, True)
    out = {}
    msg = SecsIMessage(hdr, bytes(244 * 32767))
    blocks = msg.blocks
    out["blocks_at_the_limit"] = len(blocks)
    out["numbered_1_to_n"] = [b.header.block for b in (blocks[0], blocks[1], blocks[-1])] == [1, 2, 32767]
    out["end_bit_on_the_last_only"] = blocks[-1].header.last_block and not any(b.header.last_block for b in blocks[:-1])
    try:
        over = SecsIMessage(hdr, bytes(244 * 32767 + 1))
        out["one_byte_more"] = f"accepted with {len(over.blocks)} blocks, the last one numbered {over.blocks[-1].header.block} end bit {over.blocks[-1].header.last_block}"
    except ValueError:
        out["one_byte_more"] = "refused"
    out["holds"] = out["blocks_at_the_limit"] == 32767 and out["numbered_1_to_n"] and out["end_bit_on_the_last_only"] and out["one_byte_more"] == "refused"
    return out


def run(tier, replay=None):
    report = common.Report("C16", tier)
    if replay:
        import json
        print(json.dumps(json.load(open(replay)), indent=1)[:3000])
        return 0
    proof = common.prove(report, "C16", ["protoconsts", "varconsts", "jis8", "pysecsihdr", "reasm", "checksum"], extra_targets=["Run/C16Run.vo"])
    ok, log = common.coq_make(["Run/C16Run.vo"])
    if not ok:
        report.violation({"kind": "broken-obligation", "obligation": "model Run/C16Run.vo does not build against the regenerated constants",
                          "detail": log[-1500:], "also": proof.get("broken")}, False, tag="modelbuild")
        return report.finish()
    rnd = common.rng("c16")
    lits = gen_cases(rnd, tier)
    swept, accepted = corruption_sweep(rnd, tier)
    if accepted:
        report.violation({"kind": "counterexample", "what": "a block with one byte altered in transit was accepted by SecsIBlock.decode", **accepted[0], "count": len(accepted), "swept": swept}, True, tag="sweep")
    bad, stats = evaluate(lits, "c16")
    decide_lits(report, "C16", lits, bad, stats, proof, SPEC_CODES, MODEL_CODES)
    lim = block_limit_probe()
    report.coverage["block_limit"] = lim
    if not lim["holds"]:
        report.violation({"kind": "counterexample", "what": "at the 32767-block limit the blocks are not numbered 1..n with the end bit on the last one / a longer body is not refused", **lim}, True, tag="blocklimit")
    import hashlib
    from collections import Counter
    cov = report.coverage
    cov["evaluations"] = len(lits)
    cov["distinct_nontrivial"] = len({hashlib.sha256(l[1].encode()).hexdigest() for l in lits})
    cov["rule"] = ("cases: CHdr = header fields (in range, boundary, out of range) through encode/decode; CMsg = (header, body) through SecsIMessage "
                   "splitting and SecsIBlock.encode for body lengths {0,1,243,244,245,487,488,489,732,976, random"
                   + ", 62465" + (", 62220, 244000, 976007" if tier == "thorough" else "") + "}; CDec = every byte position of encoded blocks replaced by "
                   "several values (and left unchanged) through SecsIBlock.decode; CReasm = blocks of 1-4 messages (and of 17-40 messages open at the same time) with distinct system bytes interleaved at random "
                   "through Protocol._add_message_block; every case is distinct by construction (hash of the literal) and non-trivial (it exercises an encoder/decoder)")
    cov["correspondence"] = {k: v for k, v in stats.items() if k != "eval_errors"}
    cov["exhaustive_single_byte_corruptions"] = {"swept": swept, "accepted": len(accepted)}
    cov["distribution"] = dict(Counter(k for k, _ in lits))
    cov["samples"] = [l[1][:300] for l in lits[:: max(1, len(lits) // 6)][:6]]
    return report.finish()


def decide_lits(report, prop, lits, bad, stats, proof, spec_codes, model_codes):
    """Decision logic for checks whose cases are Coq literals (kind, literal)."""
    spec_bad = [(i, m, s) for i, m, s in bad if s >= 30]
    model_bad = [(i, m, s) for i, m, s in bad if m >= 10]
    seen = set()
    for i, m, s in spec_bad:
        key = (lits[i][0], s)
        if key in seen or len(seen) >= 5:
            continue
        seen.add(key)
        report.violation({"kind": "counterexample", "what": spec_codes.get(s, str(s)), "case_kind": lits[i][0], "case": lits[i][1][:6000],
                          "spec_code": s, "model_code": m, "broken_obligation": proof.get("broken"),
                          "note": "case = Coq literal holding the input and what the implementation was observed to do"}, True, tag=f"spec{s}")
    if spec_bad:
        return
    if stats["eval_errors"]:
        report.violation({"kind": "broken-obligation", "obligation": f"correspondence {prop}: case evaluation failed in Coq",
                          "detail": stats["eval_errors"][0][-1500:], "also": proof.get("broken")}, False, tag="evalerror")
        return
    if model_bad:
        i, m, s = model_bad[0]
        report.violation({"kind": "broken-obligation", "obligation": f"correspondence {prop}: model and implementation disagree ({model_codes.get(m, m)})",
                          "case_kind": lits[i][0], "case": lits[i][1][:6000], "model_code": m, "disagreements": len(model_bad), "also": proof.get("broken"),
                          "search": f"specification evaluated on all {stats['observed']} cases of this run: no failing input"}, False, tag=f"model{m}")
        return
    if not proof["ok"] and not getattr(report, "concrete", 0):     # (a failing input was already reported: its replay names the obligation)
        report.violation({"kind": "broken-obligation", "obligation": proof["broken"],
                          "search": f"model and specification evaluated on {stats['observed']} cases: implementation agrees with both"}, False, tag="proof")
