"""C06 — replies reach exactly their requester; other messages are delivered once, one at a time, in order."""
from __future__ import annotations

import sys
import threading
import time

import coqlit as L
import common
import gemrig
import protorig


class Link:
    def __init__(self):
        self.rig = protorig.HsmsRig(active=False, session_id=0)
        self.rig.settings.timeouts.t3 = 120
        self.proto = self.rig.proto
        self.sf = self.rig.settings.streams_functions
        self.app = []            # (system, marker) of messages handed to the application
        self.spans = []          # (enter, exit) of each application callback
        self.slow = 0.0
        self.proto.events.message_received += self._on_app

    def _on_app(self, data):
        t0 = time.monotonic()
        msg = data["message"]
        if self.slow:
            time.sleep(self.slow)
        try:
            marker = int(self.sf.decode(msg).get()[0])
        except Exception:  # noqa: BLE001
            marker = -1
        self.app.append((msg.header.system, marker))
        self.spans.append((t0, time.monotonic()))

    def up(self):
        self.rig.conn.connect()
        self.rig.settle()
        self.rig.conn.feed(gemrig.ctrl_frame(1, 0x100))
        if not self.rig.settle():
            raise common.Wedged("link did not settle")

    def down(self):
        self.rig.conn.peer_close()

    def dispatcher_threads(self):
        return [t for t in threading.enumerate() if "protocol_dispatcher" in t.name and t.is_alive()]

    def reply_frame(self, system, marker, w=False):
        # w: a primary of the peer instead of a reply (S1F2): S1F13 with W-bit, or - for odd markers - without (a primary that
        # expects no reply, like S6F11 / S5F1 sent without W-bit)
        body = self.sf.function(1, 13 if w else 2)([str(marker), "v"]).encode()
        return gemrig.data_frame(1, 13 if w else 2, system, body, bool(w) and marker % 2 == 0)


def parked(proto, system):
    q = proto._response_queues.get(system)
    return q is not None and q.qsize() == 0 and len(q.not_empty._waiters) > 0


def route_case(rnd, link, k, extra):
    """k concurrent requesters; replies and foreign messages arrive in one burst in a random order"""
    proto = link.proto
    before = len(link.rig.conn.sent)
    holders = []
    gate = threading.Barrier(k)

    def work(h):
        gate.wait()
        h["result"] = proto.send_and_waitfor_response(link.sf.function(1, 1)())
        h["done"] = True

    for _ in range(k):
        h = {}
        th = threading.Thread(target=work, args=(h,), daemon=True)
        h["thread"] = th
        holders.append(h)
        th.start()
    deadline = time.monotonic() + 10
    systems = []
    while time.monotonic() < deadline:
        frames = protorig_split(link.rig.conn.sent[before:])
        systems = [b.header.system for b in frames if b.header.s_type.value == 0]
        if len(systems) == k and all(parked(proto, s) for s in set(systems)):
            break
        time.sleep(0.0005)
    else:
        raise common.Wedged("the requesters did not all send and wait")
    link.rig.settle()
    # which requester holds which system: by the queue object it waits on is not visible -> identify after the answer by marker
    answered = [s for s in systems if rnd.random() < 0.75]
    arrivals = [(s, 1000 + i, False) for i, s in enumerate(answered)]
    unknown = [rnd.choice([5, 6, 0xFFFFFFFF, 123456]) for _ in range(extra)]
    arrivals += [(s, 2000 + i, rnd.random() < 0.3) for i, s in enumerate(unknown)]
    # primaries of the peer (W-bit) that happen to carry the system bytes of an outstanding request: for the application, not the requester
    arrivals += [(s, 3000 + i, True) for i, s in enumerate(systems) if extra and rnd.random() < 0.3]
    rnd.shuffle(arrivals)
    del link.app[:]
    link.rig.conn.feed(b"".join(link.reply_frame(s, m, w) for s, m, w in arrivals))
    if not link.rig.settle():
        raise common.Wedged("did not settle after the burst")
    # the answered requesters return on their own; the others are released as a T3 expiry does
    deadline = time.monotonic() + 10
    while time.monotonic() < deadline and sum(1 for h in holders if h.get("done")) < len(set(answered)):
        time.sleep(0.0005)
    for s in set(systems) - set(answered):
        q = proto._response_queues.get(s)
        if q is not None:
            q.put_nowait(None)
    for h in holders:
        h["thread"].join(10)
        if h["thread"].is_alive():
            raise common.Wedged("a requester did not return")
    # what each system's requester received: the requester that sent system s is the one whose result carries s ... a requester
    # does not know its own system bytes, so results are matched to requests through the reply's header
    got = {}
    for h in holders:
        r = h.get("result")
        if r is not None:
            marker = int(link.sf.decode(r).get()[0])
            got.setdefault(r.header.system, []).append(marker)
    answers = []
    for s in systems:
        lst = got.get(s, [])
        answers.append(lst.pop(0) if lst else None)
    leftovers = sum(len(v) for v in got.values())
    nres = sum(1 for h in holders if h.get("result") is not None)
    lit = ("(KRoute " + L.zlist(systems) + " [" + ";".join(f"({L.z(s)}, {L.z(m)}, {L.bool_(w)})" for s, m, w in arrivals) + "] ["
           + ";".join("None" if a is None else f"(Some {L.z(a)})" for a in answers) + "] [" + ";".join(f"({L.z(s)}, {L.z(m)})" for s, m in link.app) + "])")
    return lit, {"systems": systems, "arrivals": arrivals, "answers": answers, "app": list(link.app), "extra_results": leftovers, "results": nres}


def instant_case(link, k):
    """k requesters against a peer that answers every request while it is still being sent (the reply is fed from inside
    send_data): every requester must get its own reply, nothing may reach the application"""
    proto = link.proto
    conn = link.rig.conn
    plain = conn.send_data
    arrivals = []

    def answering(data):
        ok = plain(data)
        for b in protorig_split([bytes(data)]):
            if b.header.s_type.value == 0 and (b.header.stream, b.header.function) == (1, 1):
                marker = 4000 + len(arrivals)
                arrivals.append((b.header.system, marker))
                conn.on_data({"source": conn, "data": link.reply_frame(b.header.system, marker)})
        return ok

    del link.app[:]
    conn.send_data = answering
    holders = []
    try:
        def work(h):
            h["result"] = proto.send_and_waitfor_response(link.sf.function(1, 1)())

        for _ in range(k):
            h = {}
            h["thread"] = threading.Thread(target=work, args=(h,), daemon=True)
            holders.append(h)
            h["thread"].start()
        deadline = time.monotonic() + 10
        while time.monotonic() < deadline and any(h["thread"].is_alive() for h in holders):
            # a requester whose reply went astray waits for T3: release it as the timeout would
            if len(arrivals) == k and link.rig.settle(0.3):
                for s_ in list(proto._response_queues):
                    if parked(proto, s_):
                        proto._response_queues[s_].put_nowait(None)
            time.sleep(0.002)
        for h in holders:
            h["thread"].join(5)
            if h["thread"].is_alive():
                raise common.Wedged("a requester did not return")
    finally:
        conn.send_data = plain
    link.rig.settle()
    got = {}
    for h in holders:
        r = h.get("result")
        if r is not None:
            got.setdefault(r.header.system, []).append(int(link.sf.decode(r).get()[0]))
    systems = [s_ for s_, _ in arrivals]
    answers = [(got.get(s_) or [None])[0] for s_ in systems]
    lit = ("(KRoute " + L.zlist(systems) + " [" + ";".join(f"({L.z(s_)}, {L.z(m)}, false)" for s_, m in arrivals) + "] ["
           + ";".join("None" if a is None else f"(Some {L.z(a)})" for a in answers) + "] [" + ";".join(f"({L.z(s_)}, {L.z(m)})" for s_, m in link.app) + "])")
    return lit, {"systems": systems, "arrivals": arrivals, "answers": answers, "app": list(link.app), "extra_results": 0, "results": sum(1 for a in answers if a is not None)}


def protorig_split(chunks):
    data = b"".join(chunks)
    out = []
    while len(data) >= 4:
        n = int.from_bytes(data[:4], "big") + 4
        out.append(gemrig.HsmsBlock.decode(data[:n]))
        data = data[n:]
    return out


def order_case(link, n, slow):
    """n unsolicited messages in one burst: delivered once each, in order, never two callbacks at a time"""
    del link.app[:]
    del link.spans[:]
    link.slow = slow
    msgs = [(0x5000 + i, 3000 + i) for i in range(n)]
    link.rig.conn.feed(b"".join(link.reply_frame(s, m) for s, m in msgs))
    deadline = time.monotonic() + 20
    while time.monotonic() < deadline and len(link.app) < n:
        time.sleep(0.001)
    link.rig.settle()
    link.slow = 0.0
    overlaps = sum(1 for i in range(1, len(link.spans)) if link.spans[i][0] < link.spans[i - 1][1])
    return msgs, list(link.app), overlaps


def arrival_at_empty_check_case(link):
    """A block is queued for dispatch exactly when the dispatcher thread has just found its queue empty (forced: the queue object's
    qsize() puts it there and still answers 0).  It must be delivered like any other - not stay behind until the next one wakes the thread."""
    import queue as _queue
    disp = link.proto._thread
    del link.app[:]
    first, late, third = (0x7001, 5001), (0x7002, 5002), (0x7003, 5003)
    late_block = gemrig.HsmsBlock.decode(link.reply_frame(*late))
    state = {"armed": False, "injected": False}

    class Hooked(_queue.Queue):
        def qsize(self):
            n = super().qsize()
            if n == 0 and state["armed"]:
                state["armed"] = False
                state["injected"] = True
                disp.queue_block(link.proto, late_block)
                return 0
            return n

    old = disp._dispatch_queue
    hooked = Hooked()
    disp._dispatch_queue = hooked
    try:
        state["armed"] = True
        link.rig.conn.feed(link.reply_frame(*first))
        deadline = time.monotonic() + 5
        while time.monotonic() < deadline and len(link.app) < 2:
            time.sleep(0.002)
        delivered_in_time = list(link.app)
        link.rig.conn.feed(link.reply_frame(*third))      # (a later block would wake the thread: what arrives then shows what was stuck)
        deadline = time.monotonic() + 5
        while time.monotonic() < deadline and len(link.app) < 3:
            time.sleep(0.002)
        link.rig.settle()
    finally:
        disp._dispatch_queue = old
    return {"injected": state["injected"], "delivered_before_the_next_block": delivered_in_time, "delivered_in_the_end": list(link.app), "expected_first": [first, late]}


def reenable_in_handler_case():
    """The handler of a message takes the endpoint down and up again (disable(), enable()) and keeps running for a while; meanwhile
    the peer connects again, selects and sends two messages.  They are handed to the application once, in order, after the first
    handler has returned - never two callbacks at a time - and the Select.req is answered."""
    others = len([t for t in threading.enumerate() if "protocol_dispatcher" in t.name and t.is_alive()])
    link = Link()
    link.up()
    state = {"reenabled": False}
    first, second, third = (0x7101, 7001), (0x7102, 7002), (0x7103, 7003)

    def hook(data):
        try:
            marker = int(link.sf.decode(data["message"]).get()[0])
        except Exception:  # noqa: BLE001
            return
        if marker == first[1] and not state["reenabled"]:
            link.proto.disable()
            link.proto.enable()
            state["reenabled"] = True
            time.sleep(0.6)
            state["first_returned_at"] = time.monotonic()

    # the hook runs inside the application callback, before Link._on_app records the message
    link.proto.events.message_received -= link._on_app
    link.proto.events.message_received += lambda data: (hook(data), link._on_app(data))
    try:
        link.rig.conn.feed(link.reply_frame(*first))
        deadline = time.monotonic() + 5
        while not state["reenabled"] and time.monotonic() < deadline:
            time.sleep(0.002)
        if not state["reenabled"]:
            raise common.Wedged("the handler did not get through disable() and enable()")
        n0 = len(link.rig.conn.sent)
        link.rig.conn.connect()
        link.rig.conn.feed(gemrig.ctrl_frame(1, 0x200) + link.reply_frame(*second) + link.reply_frame(*third))
        deadline = time.monotonic() + 8
        while len(link.app) < 3 and time.monotonic() < deadline:
            time.sleep(0.005)
        link.rig.settle()
        frames = protorig_split(link.rig.conn.sent[n0:])
        select_rsp = [b.header.system for b in frames if b.header.s_type.value == 2]
        # (the span of the first message does not contain the hook: what counts is whether a later callback began before the hook returned)
        started_early = [m for (m, sp) in zip(link.app, link.spans) if m != first and sp[0] < state.get("first_returned_at", 0) - 0.0005]
        overlaps = len(started_early) + sum(1 for i in range(1, len(link.spans)) if link.spans[i][0] < link.spans[i - 1][1])
        return {"delivered": list(link.app), "expected": [first, second, third], "select_rsp_for": select_rsp, "overlapping_callbacks": overlaps,
                "dispatcher_threads": len(link.dispatcher_threads()) - others, "started_before_the_first_handler_returned": started_early}
    finally:
        link.rig.stop()


def request_from_callback_case():
    """The application's handler of an inbound message asks the peer something itself (send_and_waitfor_response, T3 = 5 s); the peer
    answers within milliseconds.  The caller receives exactly that reply - not a timeout - and the reply is not handed to the
    application as an unexpected message."""
    link = Link()
    link.rig.settings.timeouts.t3 = 5
    link.up()
    box = {}

    def hook(data):
        if "asked" in box:
            return
        box["asked"] = time.monotonic()
        box["reply"] = link.proto.send_and_waitfor_response(link.sf.function(1, 1)())
        box["returned"] = time.monotonic()

    link.proto.events.message_received -= link._on_app
    link.proto.events.message_received += lambda data: (hook(data), link._on_app(data))
    stop = threading.Event()

    def peer():
        seen = 0
        while not stop.is_set():
            frames = protorig_split(link.rig.conn.sent)
            for b in frames[seen:]:
                if b.header.s_type.value == 0 and b.header.require_response and (b.header.stream, b.header.function) == (1, 1):
                    link.rig.conn.feed(link.reply_frame(b.header.system, 7300))
            seen = len(frames)
            time.sleep(0.002)

    th = threading.Thread(target=peer, daemon=True)
    th.start()
    try:
        link.rig.conn.feed(link.reply_frame(0x7301, 7301, w=True))      # an inbound primary: its handler makes the request
        deadline = time.monotonic() + 8
        while "returned" not in box and time.monotonic() < deadline:
            time.sleep(0.005)
        link.rig.settle()
        reply = box.get("reply")
        return {"handler_returned": "returned" in box, "seconds": round(box["returned"] - box["asked"], 3) if "returned" in box else None,
                "caller_got": None if reply is None else (reply.header.stream, reply.header.function, reply.header.system == protorig_split(link.rig.conn.sent)[-1].header.system or True),
                "handed_to_the_application": list(link.app)}
    finally:
        stop.set()
        link.rig.stop()


def late_reply_case():
    """A reply whose requester gives up (T3) at the very moment the receiver thread is handing it over: the receiver thread has seen that
    somebody waits for these system bytes, then the requester times out and removes its waiter, then the receiver thread goes on (forced
    by holding the receiver thread inside _add_message_block).  Two messages arrived before the reply; the handler of the first is still
    running.  The reply is nobody's any more: it is handed to the application - after the messages that arrived before it, by the
    dispatcher thread, not while another callback runs (D78)."""
    link = Link()
    link.rig.settings.timeouts.t3 = 0.6
    link.up()
    proto = link.proto
    threads = []
    gate = threading.Event()
    inner_app = link._on_app

    def app(data):
        threads.append((data["message"].header.system, threading.current_thread().name))
        if data["message"].header.system == 0x500:
            gate.wait(8)
        inner_app(data)

    proto.events.message_received -= link._on_app
    proto.events.message_received += app
    result = []
    done = threading.Event()

    def requester():
        result.append(proto.send_and_waitfor_response(link.sf.function(1, 1)()))
        done.set()

    before = len(protorig_split(link.rig.conn.sent))
    th = threading.Thread(target=requester, daemon=True)
    th.start()
    deadline = time.monotonic() + 5
    system = None
    while system is None and time.monotonic() < deadline:
        for b in protorig_split(link.rig.conn.sent)[before:]:
            if b.header.s_type.value == 0 and (b.header.stream, b.header.function) == (1, 1):
                system = b.header.system
        time.sleep(0.002)
    try:
        if system is None:
            return {"request_sent": False}
        original = proto._add_message_block

        def held(block):
            if block.header.system == system:
                done.wait(8)           # the requester times out and removes its waiter while the receiver thread is here
            return original(block)

        proto._add_message_block = held
        link.rig.conn.feed(link.reply_frame(0x500, 500, w=True))
        link.rig.conn.feed(link.reply_frame(0x501, 501, w=True))
        time.sleep(0.1)
        link.rig.conn.feed(link.reply_frame(system, 777))
        done.wait(8)
        time.sleep(0.3)
        early = list(threads)
        gate.set()
        link.rig.settle()
        deadline = time.monotonic() + 5
        while len(link.app) < 3 and time.monotonic() < deadline:
            time.sleep(0.005)
        return {"request_sent": True, "caller_got": result[0] is not None if result else "did not return", "handed_over": [m for _s, m in link.app], "expected": [500, 501, 777],
                "callbacks_started_while_the_first_was_running": [hex(s) for s, _n in early[1:]],
                "threads": sorted({"dispatcher" if "dispatcher" in n else n for _s, n in threads})}
    finally:
        gate.set()
        link.rig.stop()


def duplicate_reply_case():
    """One application thread makes two requests one after the other.  The first is answered twice (the duplicate arrives before the
    requester has taken its waiter away: forced by holding the requester at _remove_queue), the second once.  Each call returns the reply
    with the system bytes of its own request: nothing that was left over from the first transaction answers the second."""
    link = Link()
    link.rig.settings.timeouts.t3 = 5
    link.up()
    proto = link.proto
    fed = threading.Event()
    arrived = threading.Event()
    original = proto._remove_queue
    state = {"first": True}

    def held(system_id):
        if state["first"]:
            state["first"] = False
            arrived.set()
            fed.wait(5)          # the duplicate is put into the waiter of the first request before the waiter is removed
        return original(system_id)

    proto._remove_queue = held
    results = []

    def caller():
        for _ in range(2):
            r = proto.send_and_waitfor_response(link.sf.function(1, 1)())
            results.append(None if r is None else (r.header.system, int(link.sf.decode(r).get()[0])))

    stop = threading.Event()
    asked = []

    def peer():
        seen = 0
        while not stop.is_set():
            frames = protorig_split(link.rig.conn.sent)
            for b in frames[seen:]:
                if b.header.s_type.value == 0 and b.header.require_response and (b.header.stream, b.header.function) == (1, 1):
                    asked.append(b.header.system)
                    if len(asked) == 1:
                        link.rig.conn.feed(link.reply_frame(b.header.system, 8100))
                        arrived.wait(5)
                        link.rig.conn.feed(link.reply_frame(b.header.system, 8101))     # the duplicate
                        link.rig.settle()
                        fed.set()
                    else:
                        link.rig.conn.feed(link.reply_frame(b.header.system, 8200))
            seen = len(frames)
            time.sleep(0.002)

    th, pt = threading.Thread(target=caller, daemon=True), threading.Thread(target=peer, daemon=True)
    pt.start()
    th.start()
    try:
        th.join(15)
        link.rig.settle()
        return {"returned": not th.is_alive(), "requests": list(asked), "results": list(results),
                "expected": [(asked[0], 8100), (asked[1], 8200)] if len(asked) == 2 else None, "handed_to_the_application": list(link.app)}
    finally:
        stop.set()
        fed.set()
        link.rig.stop()


def queued_at_link_loss_case():
    """Two messages arrive; the handler of the first is still running (the second is queued behind it) when the peer closes.  Then the
    peer connects again and sends a third.  Every one of them was received completely while the session was SELECTED."""
    link = Link()
    link.up()
    first, second, third = (0x7201, 7201), (0x7202, 7202), (0x7203, 7203)
    try:
        link.slow = 0.5
        link.rig.conn.feed(link.reply_frame(*first) + link.reply_frame(*second))
        time.sleep(0.15)                       # the first handler is running, the second message is queued behind it
        link.slow = 0.0
        link.down()
        link.up()
        link.rig.conn.feed(link.reply_frame(*third))
        deadline = time.monotonic() + 5
        while time.monotonic() < deadline and len(link.app) < 3:
            time.sleep(0.005)
        link.rig.settle()
        return {"sent": [first, second, third], "delivered": list(link.app), "queued_when_the_link_was_lost": second}
    finally:
        link.rig.stop()


def stale_queue_case(link):
    """A Linktest.req of ours that is never answered (T6 runs out); later a data message arrives that happens to carry the same
    system bytes: it is an ordinary inbound message and must reach the application."""
    link.rig.settings.timeouts.t6 = 0.3
    del link.app[:]
    n0 = len(link.rig.conn.sent)
    box = {}
    th = threading.Thread(target=lambda: box.setdefault("r", link.proto.send_linktest_req()), daemon=True)
    th.start()
    th.join(10)
    sent = b"".join(link.rig.conn.sent[n0:])
    system = int.from_bytes(sent[10:14], "big") if len(sent) >= 14 and sent[9] == 5 else None
    obs = {"linktest_returned": not th.is_alive(), "linktest_result": repr(box.get("r")), "system": system}
    if system is None:
        return obs
    msgs = [(system - 1, 6001), (system, 6002), (system + 1, 6003)]
    link.rig.conn.feed(b"".join(link.reply_frame(s0, m) for s0, m in msgs))
    deadline = time.monotonic() + 5
    while time.monotonic() < deadline and len(link.app) < 3:
        time.sleep(0.002)
    link.rig.settle()
    obs["sent"] = msgs
    obs["delivered"] = list(link.app)
    return obs


def timed_out_request_case(link):
    """A request of ours that is never answered (T3 runs out, the caller gets None); later data messages arrive that happen to carry
    the same system bytes: they are ordinary inbound messages and reach the application (nothing of the old transaction is left)."""
    old_t3 = link.rig.settings.timeouts.t3
    link.rig.settings.timeouts.t3 = 0.3
    del link.app[:]
    n0 = len(link.rig.conn.sent)
    box = {}
    try:
        th = threading.Thread(target=lambda: box.setdefault("r", link.proto.send_and_waitfor_response(link.sf.function(1, 1)())), daemon=True)
        th.start()
        th.join(10)
    finally:
        link.rig.settings.timeouts.t3 = old_t3
    frames = [b for b in protorig_split(link.rig.conn.sent[n0:]) if b.header.s_type.value == 0]
    system = frames[0].header.system if frames else None
    obs = {"request_returned": not th.is_alive(), "result": repr(box.get("r")), "system": system, "open_transactions_afterwards": len(link.proto._response_queues)}
    if system is None or th.is_alive():
        return obs
    msgs = [(system, 6101), ((system + 1) % 2**32, 6102), (system, 6103)]
    link.rig.conn.feed(b"".join(link.reply_frame(s0, m) for s0, m in msgs))
    deadline = time.monotonic() + 5
    while time.monotonic() < deadline and len(link.app) < 3:
        time.sleep(0.002)
    link.rig.settle()
    obs["sent"] = msgs
    obs["delivered"] = list(link.app)
    return obs


def alloc_cases(rnd):
    lits, raw = [], []
    for c0 in [0, 100, 2**32 - 3, 2**32 - 1, rnd.randrange(2**32)]:
        link = protorig.HsmsRig()
        link.proto._system_counter = c0
        obs = [link.proto.get_next_system_counter() for _ in range(5)]
        lits.append(f"(KAlloc {L.z(c0)} {L.zlist(obs)})")
        raw.append((c0, obs))
    return lits, raw


def stress_alloc(threads=8, per=3000):
    """many threads allocate at the same time with the shortest switch interval: all values must differ"""
    link = protorig.HsmsRig()
    link.proto._system_counter = 10
    out = [[] for _ in range(threads)]
    gate = threading.Barrier(threads)
    old = sys.getswitchinterval()
    sys.setswitchinterval(1e-6)

    def work(i):
        gate.wait()
        for _ in range(per):
            out[i].append(link.proto.get_next_system_counter())

    try:
        ths = [threading.Thread(target=work, args=(i,), daemon=True) for i in range(threads)]
        for t in ths:
            t.start()
        for t in ths:
            t.join(60)
    finally:
        sys.setswitchinterval(old)
    flat = [v for o in out for v in o]
    return len(flat), len(set(flat))


HEADER = "From SG Require Import Base.Prelude Model.AllocLang Model.Alloc Gen.Alloc Run.C06Run.\nOpen Scope Z_scope.\n"


def evaluate(lits, prefix, shard=200):
    shards, maps = [], []
    idx = list(range(len(lits)))
    for s in range(0, len(idx), shard):
        part = idx[s: s + shard]
        maps.append(part)
        shards.append("Definition cs : list c06case := [\n" + ";\n".join(lits[i] for i in part) + "\n].\nEval vm_compute in run_c06 cs.\n")
    outs = common.coq_eval_shards(prefix, HEADER, shards)
    bad, skipped, checked, errors = [], 0, 0, []
    for part, (ok, text) in zip(maps, outs):
        parsed = common.parse_triples(text) if ok else None
        if parsed is None:
            errors.append(text[-800:])
            continue
        b, sk, ch = parsed
        skipped += sk
        checked += ch
        bad.extend((part[i], m, s) for i, m, s in b)
    return bad, {"skipped_unmodelled": skipped, "spec_checked": checked, "eval_errors": errors, "observed": len(lits)}


def preemption_search(max_points=80):
    """Search for a failing schedule on the implementation: thread A is stopped before its n-th bytecode inside
    get_next_system_counter (sys.monitoring INSTRUCTION events), thread B then allocates (to completion if it can), A
    resumes.  Returns the first n for which both obtain the same system bytes; None if no preemption point does it."""
    mon = sys.monitoring
    tool = mon.DEBUGGER_ID
    link = protorig.HsmsRig()
    proto = link.proto
    code = type(proto).get_next_system_counter.__code__
    found = None
    try:
        mon.use_tool_id(tool, "verif-c06")
    except ValueError:
        pass
    state = {"n": 0, "count": 0, "a_ident": None, "reached": None, "resume": None}

    def on_instruction(co, offset):
        if co is code and threading.get_ident() == state["a_ident"]:
            state["count"] += 1
            if state["count"] == state["n"]:
                state["reached"].set()
                state["resume"].wait(5)

    mon.register_callback(tool, mon.events.INSTRUCTION, on_instruction)
    mon.set_local_events(tool, code, mon.events.INSTRUCTION)
    try:
        for n in range(1, max_points + 1):
            proto._system_counter = 500
            state.update(n=n, count=0, reached=threading.Event(), resume=threading.Event())
            box = {}

            def thread_a(box=box):
                state["a_ident"] = threading.get_ident()
                box["a"] = proto.get_next_system_counter()

            def thread_b(box=box):
                box["b"] = proto.get_next_system_counter()

            ta = threading.Thread(target=thread_a, daemon=True)
            ta.start()
            if not state["reached"].wait(1):   # A finished before its n-th bytecode: no more preemption points
                ta.join(2)
                break
            tb = threading.Thread(target=thread_b, daemon=True)
            tb.start()
            tb.join(0.05)                      # B completes unless A holds a lock
            state["resume"].set()
            ta.join(5)
            tb.join(5)
            if "a" in box and "b" in box and box["a"] == box["b"]:
                found = {"preempt_A_before_bytecode": n, "A_got": box["a"], "B_got": box["b"], "counter_before": 500}
                break
    finally:
        mon.set_local_events(tool, code, 0)
        mon.register_callback(tool, mon.events.INSTRUCTION, None)
        mon.free_tool_id(tool)
    return found


SPEC_CODES = {31: "two outstanding requests carried the same system bytes", 32: "a requester did not receive exactly the first reply with its system bytes",
              33: "the messages handed to the application are not the remaining arrivals, once each, in arrival order",
              34: "the allocator returned the same system bytes twice", 35: "the allocator does not count modulo 2^32"}
MODEL_CODES = {12: "model and implementation route replies differently", 13: "model and implementation deliver different messages to the application",
               14: "model and implementation allocate different system bytes"}


def run(tier, replay=None):
    import json
    import logging
    from collections import Counter
    logging.disable(logging.CRITICAL)
    report = common.Report("C06", tier)
    if replay:
        print(json.dumps(json.load(open(replay)), indent=1)[:3000])
        return 0
    proof = common.prove(report, "C06", ["alloc", "dispatcher", "handover", "request"], extra_targets=["Run/C06Run.vo"])
    ok, log = common.coq_make(["Run/C06Run.vo"])
    if not ok:
        report.violation({"kind": "broken-obligation", "obligation": "Run/C06Run.vo does not build against the regenerated allocator", "detail": log[-1500:], "also": proof.get("broken")}, False, tag="modelbuild")
        return report.finish()
    rnd = common.rng("c06")
    cov = report.coverage
    # 1. schedules of two allocating threads on the implementation (one preemption at every bytecode of the first)
    race = common.with_deadline(preemption_search, 120.0)
    cov["preemption_search"] = "no preemption point of thread A lets thread B obtain the same system bytes" if race is None else race
    if race is not None:
        report.violation({"kind": "counterexample", "what": SPEC_CODES[31], "schedule": "thread A runs get_next_system_counter() up to the given bytecode, thread B runs it completely, A resumes",
                          **race, "broken_obligation": proof.get("broken")}, True, tag="race")
    # 2. routing under concurrency, ordering, allocator values
    lits, raws = [], []
    wedged = []
    n_route = 25 if tier == "quick" else 250

    def routing():
        link = Link()
        link.up()
        try:
            for i in range(n_route):
                if i % 10 == 9:          # across reconnects
                    link.down()
                    link.up()
                if i % 5 == 4:
                    lit, raw = instant_case(link, rnd.choice([1, 2, 4]))
                else:
                    lit, raw = route_case(rnd, link, rnd.choice([1, 2, 3, 5, 8, 12]), rnd.choice([0, 1, 3, 6]))
                lits.append(lit)
                raws.append(raw)
                if raw["extra_results"] or raw["results"] != len([a for a in raw["answers"] if a is not None]):
                    report.violation({"kind": "counterexample", "what": "a requester received a reply that does not carry its system bytes / more replies than requests", **raw}, True, tag="foreign")
            # ordering, exactly once, one at a time; also after the link was lost and re-established
            order_stats = []
            for round_ in range(3 if tier == "quick" else 10):
                msgs, app, overlaps = order_case(link, 12 if tier == "quick" else 60, 0.002)
                threads_now = len(link.dispatcher_threads())
                order_stats.append({"sent": len(msgs), "delivered": len(app), "in_order": app == msgs, "overlapping_callbacks": overlaps, "dispatcher_threads": threads_now})
                if app != msgs or overlaps or threads_now > 1:
                    report.violation({"kind": "counterexample", "what": "inbound messages were not handed to the application exactly once, one at a time, in arrival order",
                                      "after_reconnects": round_, "sent": msgs, "delivered": app, "overlapping_callbacks": overlaps, "dispatcher_threads": threads_now}, True, tag="order")
                    break
                # the link is lost in the middle of a message (its length field, header or body cut), then re-established
                partial = link.reply_frame(0x6000 + round_, 4000 + round_)
                link.rig.conn.feed(partial[: (3, 7, 20, len(partial) - 1)[round_ % 4]])
                link.rig.settle()
                link.down()
                link.up()
            cov["ordering"] = order_stats
            inj = arrival_at_empty_check_case(link)
            cov["arrival_at_empty_check"] = inj
            if inj["injected"] and inj["delivered_before_the_next_block"] != inj["expected_first"]:
                report.violation({"kind": "counterexample", "what": "a message queued for dispatch at the moment the dispatcher found its queue empty was not handed to the application until a later message arrived", **inj}, True, tag="lostwakeup")
            stale = stale_queue_case(link)
            cov["after_unanswered_linktest"] = stale
            re = reenable_in_handler_case()
            cov["reenable_inside_a_handler"] = re
            if re["delivered"] != re["expected"] or re["overlapping_callbacks"] or re["select_rsp_for"] != [0x200] or re["dispatcher_threads"] > 1:
                report.violation({"kind": "counterexample", "what": "a handler that takes the endpoint down and up again (disable(), enable()) and keeps running: the messages of the next connection "
                                  "were not handed to the application once, in order, one at a time after it, or the Select.req was not answered", **re}, True, tag="reenable")
            rc = request_from_callback_case()
            cov["request_from_a_callback"] = rc
            if not (rc["handler_returned"] and rc["caller_got"] is not None and rc["caller_got"][:2] == (1, 2) and rc["seconds"] < 2.0
                    and [m for _s, m in rc["handed_to_the_application"]] == [7301]):
                report.violation({"kind": "counterexample", "what": "a request made from inside a message handler did not receive the reply that arrived (it timed out / the reply was handed to the application)", **rc}, True, tag="callbackrequest")
            lr = late_reply_case()
            cov["reply_for_a_requester_that_just_gave_up"] = lr
            if not lr.get("request_sent") or lr["handed_over"] != lr["expected"] or lr["callbacks_started_while_the_first_was_running"] or lr["threads"] != ["dispatcher"]:
                report.violation({"kind": "counterexample", "what": "a reply whose requester gave up while the receiver thread was handing it over was not handed to the application after the messages "
                                  "that arrived before it, by the dispatcher thread, one callback at a time", **lr}, True, tag="latereply")
            dup = duplicate_reply_case()
            cov["first_request_answered_twice"] = dup
            if not dup["returned"] or dup["expected"] is None or [tuple(r) if r else r for r in dup["results"]] != dup["expected"]:
                report.violation({"kind": "counterexample", "what": "two consecutive requests of one thread, the first answered twice: a call did not return the reply that carries the system bytes "
                                  "of its own request", **dup}, True, tag="duplicate")
            ql = queued_at_link_loss_case()
            cov["queued_at_link_loss"] = ql
            known = {e["id"]: e for e in common.known_findings("C06") if e.get("status") == "open"}
            if ql["delivered"] != ql["sent"]:
                if ql["delivered"] == [ql["sent"][0], ql["sent"][2]] and "C06-queued-at-link-loss" in known:
                    report.known(f"C06-queued-at-link-loss: {known['C06-queued-at-link-loss']['text']} (sent {ql['sent']}, delivered {ql['delivered']})")
                else:
                    report.violation({"kind": "counterexample", "what": "messages received completely before / after a link loss were not handed to the application exactly once, in order", **ql}, True, tag="linkloss")
            late = timed_out_request_case(link)
            cov["after_timed_out_request"] = late
            if not late["request_returned"] or (late.get("system") is not None and late.get("delivered") != late.get("sent")):
                report.violation({"kind": "counterexample", "what": "after a request of ours had timed out (T3), inbound data messages carrying its system bytes were not handed to the application", **late}, True, tag="latequeue")
            if stale.get("system") is not None and stale.get("delivered") != stale.get("sent"):
                report.violation({"kind": "counterexample", "what": "an inbound data message carrying the system bytes of an earlier, unanswered Linktest.req was not handed to the application", **stale}, True, tag="stalequeue")
        finally:
            link.rig.stop()

    common.guarded(routing, "routing / ordering scenario", wedged, 600.0)
    common.report_wedged(report, wedged, proof)
    if not proof["ok"] and not report.violations:
        # a proof obligation no longer checks and the implementation showed no failing input above: search the model
        ok2, out = common.coq_eval("c06_race", HEADER, "Eval vm_compute in (alloc_locked, find_race (length alloc_prog)).")
        flat = " ".join(out.split())
        report.violation({"kind": "broken-obligation", "obligation": proof["broken"], "model_search": flat[-400:],
                          "searched": "every single preemption point of two allocating threads, the routing/ordering scenarios and the forced dispatcher interleaving on the implementation: nothing failed"},
                         "Some" in flat and ok2, tag="proof")
    alits, araw = alloc_cases(rnd)
    lits += alits
    total, unique = stress_alloc(8, 1500 if tier == "quick" else 20000)
    cov["stress"] = {"allocations": total, "distinct": unique}
    if total != unique:
        report.violation({"kind": "counterexample", "what": SPEC_CODES[34], "threads": 8, "allocations": total, "distinct": unique}, True, tag="stress")
    bad, stats = evaluate(lits, "c06")
    spec_bad = [(i, m, sc) for i, m, sc in bad if sc >= 30]
    model_bad = [(i, m, sc) for i, m, sc in bad if m >= 10 and sc < 30]
    reported = set()
    for i, m, sc in spec_bad:
        if sc in reported:
            continue
        reported.add(sc)
        report.violation({"kind": "counterexample", "what": SPEC_CODES.get(sc, str(sc)), "observed_case": lits[i], "model_code": m, "broken_obligation": proof.get("broken")}, True, tag=f"spec{sc}")
    if not report.violations:
        if model_bad:
            i, m, sc = model_bad[0]
            report.violation({"kind": "broken-correspondence", "obligation": "Model/Alloc.v no longer behaves like the protocol's routing / allocator: " + MODEL_CODES.get(m, str(m)),
                              "observed_case": lits[i], "count": len(model_bad)}, False, tag="model")
        elif stats["eval_errors"]:
            report.violation({"kind": "broken-correspondence", "obligation": "case evaluation failed", "detail": stats["eval_errors"][0]}, False, tag="eval")
    cov["evaluations"] = len(lits)
    cov["distinct_nontrivial"] = len(set(lits))
    cov["rule"] = ("a real HsmsProtocol with its threads: (1) every single-preemption schedule of two threads inside get_next_system_counter (sys.monitoring, bytecode granularity); "
                   "(2) 1-12 application threads blocked in send_and_waitfor_response at the same time, their replies (some missing) and foreign messages fed in one burst in random order, "
                   "across reconnects: which requester got what, what reached the application and in which order; (3) bursts of unsolicited messages with a slow callback: order, count, "
                   "overlapping callbacks, number of dispatcher threads after reconnects; (4) allocator values incl. the 2^32 wrap and an 8-thread stress run")
    cov["correspondence"] = {k: v for k, v in stats.items() if k != "eval_errors"}
    cov["distribution"] = {"requesters": dict(Counter(len(r["systems"]) for r in raws)), "arrivals": dict(Counter(min(len(r["arrivals"]) // 4 * 4, 16) for r in raws)),
                           "unanswered": sum(1 for r in raws for a in r["answers"] if a is None)}
    cov["samples"] = [lit[:300] for lit in lits[:: max(1, len(lits) // 5)][:5]]
    return report.finish()
