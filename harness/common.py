"""Shared machinery of the checks: translators, proof build, in-Coq case evaluation,
violation/known-finding reporting, evidence files."""
from __future__ import annotations

import fcntl
import hashlib
import json
import os
import random
import re
import subprocess
import sys
import time

HERE = os.path.dirname(os.path.abspath(__file__))
VERIF = os.path.dirname(HERE)
COQ = os.path.join(VERIF, "coq")
BUILD = os.path.join(VERIF, "build")
REPLAYS = os.path.join(VERIF, "replays")
EVIDENCE = os.path.join(VERIF, "evidence")
REPO = os.environ.get("SECSGEM_REPO", "/repo")
PY = "/venv/bin/python"

os.environ.setdefault("PYTHONHASHSEED", "0")

TRUSTED_BASE = [
    "Coq 8.16.1 kernel (coqc); vm_compute used for finite-table lemmas, witnesses and case evaluation; no native_compute",
    "no axioms declared by this development; Print Assumptions output per theorem is under coverage.axioms",
    "fail-closed Python-ast translators harness/gen_*.py regenerate coq/Gen/*.v from /repo on every run",
    "correspondence check: implementation imported from /repo and executable Gallina model evaluated inside Coq on the same cases (harness/*.py, coq/Run/*.v); no extraction is used",
    "modelled, not verified: CPython struct/codecs/int/float/dict semantics; method bodies are hand-modelled and tied by correspondence only",
]


def seed() -> int:
    try:
        return int(os.environ.get("VERIF_SEED", "0"))
    except ValueError:
        return 0


def rng(tag: str) -> random.Random:
    return random.Random(f"{seed()}:{tag}")


def sh(cmd, timeout=1200, cwd=None, env=None):
    proc = subprocess.run(cmd, cwd=cwd, env=env, capture_output=True, text=True, timeout=timeout, check=False)
    return proc.returncode, proc.stdout + proc.stderr


class Lock:
    def __init__(self, name="build"):
        os.makedirs(BUILD, exist_ok=True)
        self.path = os.path.join(BUILD, f".{name}.lock")

    def __enter__(self):
        self.handle = open(self.path, "w")
        fcntl.flock(self.handle, fcntl.LOCK_EX)
        return self

    def __exit__(self, *exc):
        fcntl.flock(self.handle, fcntl.LOCK_UN)
        self.handle.close()


# ---------------------------------------------------------------- translators
def run_translators(names):
    """Run harness/gen_<name>.py for each name. Returns list of (name, ok, message)."""
    out = []
    env = dict(os.environ, PYTHONPATH=f"{HERE}:{REPO}", SECSGEM_REPO=REPO)
    for name in names:
        code, text = sh([PY, os.path.join(HERE, f"gen_{name}.py")], env=env, timeout=300)
        out.append((name, code == 0, text.strip()))
    return out


def gen_hashes():
    res = {}
    gdir = os.path.join(COQ, "Gen")
    for fn in sorted(os.listdir(gdir)):
        if fn.endswith(".v"):
            with open(os.path.join(gdir, fn), "rb") as handle:
                res[fn] = hashlib.sha256(handle.read()).hexdigest()[:16]
    return res


# ---------------------------------------------------------------- proof build
def coq_make(targets, jobs=8, timeout=3000):
    """(Re)build the given .vo targets (relative to coq/). Returns (ok, log)."""
    with Lock():
        mk = os.path.join(COQ, "Makefile")
        proj = os.path.join(COQ, "_CoqProject")
        if not os.path.exists(mk) or os.path.getmtime(mk) < os.path.getmtime(proj):
            code, text = sh(["coq_makefile", "-f", "_CoqProject", "-o", "Makefile"], cwd=COQ)
            if code != 0:
                return False, text
        code, text = sh(["timeout", str(timeout), "make", f"-j{jobs}", *targets], cwd=COQ, timeout=timeout + 60)
        return code == 0, text


def failing_file(log: str):
    m = re.search(r'File "\./([^"]+)", line (\d+)', log)
    return (m.group(1), int(m.group(2))) if m else (None, None)


def theorem_at(path: str, line: int):
    """Name of the Lemma/Theorem enclosing a line of a .v file (for broken-obligation reports)."""
    try:
        with open(os.path.join(COQ, path), encoding="utf-8") as handle:
            lines = handle.read().split("\n")
    except OSError:
        return None
    for i in range(min(line, len(lines)) - 1, -1, -1):
        m = re.match(r"\s*(?:Local\s+|Global\s+)?(Lemma|Theorem|Corollary|Example|Fact|Definition|Instance)\s+([A-Za-z0-9_']+)", lines[i])
        if m:
            return m.group(2)
    return None


def props_info(prop: str):
    """Parse coq/Props/<prop>.v: theorem names; and the Print Assumptions output saved by the build."""
    path = os.path.join(COQ, "Props", f"{prop}.v")
    names = []
    with open(path, encoding="utf-8") as handle:
        for line in handle:
            m = re.match(r"\s*(Theorem|Example)\s+([A-Za-z0-9_']+)", line)
            if m:
                names.append((m.group(1), m.group(2)))
    return names


def print_assumptions(prop: str):
    """Re-run coqc on Props/<prop>.v to capture Print Assumptions output (cheap: deps are compiled)."""
    code, text = sh(["coqc", "-Q", ".", "SG", f"Props/{prop}.v"], cwd=COQ, timeout=1200)
    axioms = {}
    if code != 0:
        return axioms, text
    # output: blocks "Closed under the global context" or "Axioms:\n name : type"
    cur = []
    blocks = []
    for line in text.split("\n"):
        if line.startswith("Closed under the global context"):
            blocks.append("closed under the global context")
        elif line.startswith("Axioms:"):
            cur = []
            blocks.append(cur)
        elif blocks and isinstance(blocks[-1], list) and line.strip():
            m = re.match(r"^([A-Za-z0-9_.']+)\s*:", line)
            if m:
                blocks[-1].append(m.group(1))
    return blocks, text


# ---------------------------------------------------------------- in-Coq case evaluation
def coq_eval(name: str, header: str, body: str, timeout=1200):
    """Write build/cases/<name>.v and run coqc on it. Returns (ok, output)."""
    cdir = os.path.join(BUILD, "cases")
    os.makedirs(cdir, exist_ok=True)
    path = os.path.join(cdir, f"{name}.v")
    with open(path, "w", encoding="utf-8") as handle:
        handle.write(header + "\n" + body + "\n")
    code, text = sh(
        ["bash", "-c", f"ulimit -s unlimited 2>/dev/null; exec timeout {timeout} coqc -Q {COQ} SG {path}"],
        cwd=cdir,
        timeout=timeout + 60,
    )
    for ext in (".vo", ".vok", ".vos", ".glob"):
        try:
            os.remove(path[:-2] + ext)
        except OSError:
            pass
    try:
        os.remove(os.path.join(cdir, f".{name}.aux"))
    except OSError:
        pass
    return code == 0, text


def coq_eval_shards(prefix: str, header: str, shards, jobs=8, timeout=1200):
    """Evaluate several case files in parallel. shards: list of body strings. Returns list of (ok, output)."""
    from concurrent.futures import ThreadPoolExecutor

    with ThreadPoolExecutor(max_workers=jobs) as pool:
        futs = [pool.submit(coq_eval, f"{prefix}_{i}", header, body, timeout) for i, body in enumerate(shards)]
        results = [f.result() for f in futs]
    # a shard that died without a Coq error message (killed for memory or time while the machine was busy) is run again, alone
    for i, (ok, text) in enumerate(results):
        if not ok and "Error" not in text:
            results[i] = coq_eval(f"{prefix}_{i}_retry", header, shards[i], timeout * 2)
    return results


def parse_triples(text: str):
    """Parse '= ([(i, m, s); ...], skipped, checked)' printed by run_cases."""
    flat = " ".join(text.split()).replace("%N", "").replace("%nat", "")
    m = re.search(r"= \((\[.*?\]), (\d+), (\d+)\)\s*:", flat)
    if not m:
        return None
    bad = [(int(a), int(b), int(c)) for a, b, c in re.findall(r"\((\d+), (\d+), (\d+)\)", m.group(1))]
    return bad, int(m.group(2)), int(m.group(3))


# ---------------------------------------------------------------- running the implementation under a deadline
class Wedged(Exception):
    """the implementation did not come back within the deadline (a blocked call, e.g. send_message waiting for a thread that is not running)"""


def with_deadline(fn, seconds=30.0):
    """Run fn() on a daemon thread; raise Wedged (with the stack of the blocked thread) if it does not finish in time."""
    import threading
    import traceback

    box = {}

    def work():
        try:
            box["result"] = fn()
        except BaseException as exc:  # noqa: BLE001
            box["error"] = exc

    th = threading.Thread(target=work, daemon=True, name="_verif_deadline")
    th.start()
    th.join(seconds)
    if th.is_alive():
        frame = sys._current_frames().get(th.ident)
        stack = "".join(traceback.format_stack(frame)[-8:]) if frame else "?"
        raise Wedged(stack)
    if "error" in box:
        raise box["error"]
    return box["result"]


def guarded(fn, what, wedged, seconds=40.0):
    """fn() under a deadline; a blocked or unsettled implementation is recorded in `wedged` and None is returned"""
    if len(wedged) >= 3:
        return None
    try:
        return with_deadline(fn, seconds)
    except Wedged as exc:
        wedged.append({"input": what, "blocked_in": str(exc)})
    except RuntimeError as exc:
        if "settle" not in str(exc) and "did not" not in str(exc):
            raise
        wedged.append({"input": what, "blocked_in": str(exc)})
    return None


def report_wedged(report, wedged, proof):
    for w in wedged[:2]:
        report.violation({"kind": "counterexample", "what": "the implementation blocked or never came to rest while this input was played (a library call did not return in time)",
                          **w, "broken_obligation": proof.get("broken")}, True, tag="wedged")


# ---------------------------------------------------------------- reporting
class Report:
    def __init__(self, prop: str, tier: str):
        self.prop = prop
        self.tier = tier
        self.t0 = time.time()
        self.violations = []
        self.known_lines = []
        self.coverage = {
            "obligations": 0,
            "discharged": 0,
            "checker_cmd": f"cd /verif/coq && make Props/{prop}.vo  (coqc 8.16.1, full .vo build)",
            "trusted_base": list(TRUSTED_BASE),
            "evaluations": 0,
            "distinct_nontrivial": 0,
            "rule": "",
            "samples": [],
        }
        self.assumptions = []

    def violation(self, replay: dict, found_input: bool, tag: str = ""):
        os.makedirs(REPLAYS, exist_ok=True)
        digest = hashlib.sha256(json.dumps(replay, sort_keys=True, default=str).encode()).hexdigest()[:10]
        path = os.path.join(REPLAYS, f"{self.prop}_{tag or replay.get('kind', 'v')}_{digest}.json")
        replay = dict(replay, property=self.prop, seed=seed(), rerun=f"./check {self.prop} --replay {path}")
        with open(path, "w", encoding="utf-8") as handle:
            json.dump(replay, handle, indent=1, default=str)
        line = f"VIOLATION property={self.prop} replay={path}"
        if not found_input:
            line += " no-failing-input-found"
        print(line, flush=True)
        self.violations.append(path)
        if found_input:
            self.concrete = getattr(self, "concrete", 0) + 1     # violations reported with a failing input

    def known(self, text: str):
        line = f"KNOWN-FINDING: property={self.prop} {text}"
        print(line, flush=True)
        self.known_lines.append(text)

    def finish(self) -> int:
        os.makedirs(EVIDENCE, exist_ok=True)
        doc = {
            "property_id": self.prop,
            "tier": self.tier,
            "seed": seed(),
            "level": "proof",
            "coverage": self.coverage,
            "assumptions": self.assumptions,
            "wall_s": round(time.time() - self.t0, 2),
            "violations": len(self.violations),
        }
        self.coverage["known_findings_reported"] = self.known_lines
        with open(os.path.join(EVIDENCE, f"{self.prop}.json"), "w", encoding="utf-8") as handle:
            json.dump(doc, handle, indent=1, default=str)
        return 1 if self.violations else 0


def known_findings(prop: str):
    path = os.path.join(VERIF, "known_findings.json")
    try:
        with open(path, encoding="utf-8") as handle:
            data = json.load(handle)
    except OSError:
        return []
    return [e for e in data.get("findings", []) if e.get("property") == prop]


def known_or_violation(report: Report, prop: str, finding_id: str, holds: bool, detail: dict, what: str, tag: str):
    """a directed probe for something that is recorded as an open finding: KNOWN-FINDING while it is listed open, a violation otherwise"""
    report.coverage.setdefault("directed_probes", {})[finding_id] = dict(detail, holds=holds)
    if holds:
        return
    listed = {e["id"]: e for e in known_findings(prop)}
    entry = listed.get(finding_id)
    if entry and entry.get("status") == "open":
        report.known(f"{finding_id}: {entry['text']} ({detail})")
    else:
        report.violation({"kind": "counterexample", "what": what, **detail}, True, tag=tag)


def nested_bytes(depth: int) -> bytes:
    """the E5 encoding of <U1 7> wrapped in `depth` one-element lists"""
    return bytes([1, 1]) * depth + bytes([0xA5, 1, 7])


def prove(report: Report, prop: str, translators, extra_targets=()):
    """Steps 1+2 of a check: translate, build Props/<prop>.vo, record obligations.

    Returns dict(ok, broken=<description or None>)."""
    tr = run_translators(translators)
    report.coverage["translators"] = [{"name": n, "ok": ok, "message": msg[-300:]} for n, ok, msg in tr]
    bad = [(n, msg) for n, ok, msg in tr if not ok]
    if bad:
        return {"ok": False, "broken": f"translator gen_{bad[0][0]} failed (source shape not recognised): {bad[0][1][-400:]}", "stage": "translate"}
    report.coverage["gen_hashes"] = gen_hashes()
    ok, log = coq_make([f"Props/{prop}.vo", *extra_targets])
    names = props_info(prop)
    theorems = [n for kind, n in names if kind == "Theorem"]
    report.coverage["obligations"] = len(names)
    report.coverage["theorems"] = theorems
    report.coverage["nonvacuity_examples"] = [n for kind, n in names if kind == "Example"]
    if not ok:
        fpath, line = failing_file(log)
        thm = theorem_at(fpath, line) if fpath else None
        report.coverage["discharged"] = 0
        report.coverage["build_log_tail"] = log[-1500:]
        return {"ok": False, "broken": f"proof obligation no longer checks: {thm or '?'} in coq/{fpath}:{line}", "stage": "prove", "theorem": thm, "file": fpath}
    report.coverage["discharged"] = len(names)
    blocks, _ = print_assumptions(prop)
    report.coverage["axioms"] = {t: (blocks[i] if i < len(blocks) else "?") for i, t in enumerate(theorems)}
    return {"ok": True, "broken": None}


_PORT_BLOCK = []


def own_port(k: int = 0) -> int:
    """A loopback TCP port of this process's own block of ten.  Several checks may run at the same time: a block is claimed by
    binding an abstract unix socket named after it (exclusive among live processes, released by the kernel when the process ends,
    no file anywhere); the blocks lie below the kernel's ephemeral range, so neither another check nor an outgoing connection is
    given the same port while an endpoint here is between two listeners."""
    if not _PORT_BLOCK:
        import socket
        start = os.getpid() % 2000
        for off in range(2000):
            idx = (start + off) % 2000
            lock = socket.socket(socket.AF_UNIX, socket.SOCK_STREAM)
            try:
                lock.bind("\0secsgem-verif-portblock-%d" % idx)
            except OSError:
                lock.close()
                continue
            _PORT_BLOCK.extend([idx, lock])
            break
        else:
            _PORT_BLOCK.extend([start, None])
    return 10000 + _PORT_BLOCK[0] * 10 + (k % 10)
