"""C05 — the HSMS session follows the E37 connect/select state model for every history."""
from __future__ import annotations

import threading
import time

import coqlit as L
import common
import protorig

from secsgem.hsms.header import HsmsHeader, HsmsSType
from secsgem.hsms.message import HsmsBlock, HsmsMessage

ST = {"DATA": 0, "SELECT_REQ": 1, "SELECT_RSP": 2, "DESELECT_REQ": 3, "DESELECT_RSP": 4, "LINKTEST_REQ": 5, "LINKTEST_RSP": 6, "REJECT": 7, "SEPARATE": 9}


def frame(stype, system, stream=0, function=0, w=False, body=b"", session=0xFFFF):
    return HsmsMessage(HsmsHeader(system, session, stream, function, w, 0, HsmsSType(stype)), body).blocks[0].encode()


def split_frames(chunks):
    data = b"".join(chunks)
    out = []
    while len(data) >= 4:
        n = int.from_bytes(data[:4], "big") + 4
        out.append(HsmsBlock.decode(data[:n]))
        data = data[n:]
    return out


class Session:
    """drives a real HsmsProtocol through a history of events and records what it sends / delivers"""

    def __init__(self, active=False):
        self.rig = protorig.HsmsRig(active=active, session_id=0)
        self.rig.settings.timeouts.t6 = 30
        self.proto = self.rig.proto
        self.requesters = {}          # system -> (thread, result holder)
        self.resolved = []
        self.known_sent = 0
        self.active = active
        self.auto_holders = []
        self.plain_select_req = self.proto.send_select_req
        if active:
            # the active endpoint sends Select.req by itself after the connect; observe the result of that call
            def observed_select_req():
                holder = {"done_event": threading.Event()}
                self.auto_holders.append(holder)
                try:
                    holder["result"] = self.plain_select_req()
                    return holder["result"]
                finally:
                    holder["done_event"].set()

            self.proto.send_select_req = observed_select_req

    def adopt_auto_select(self, before):
        """active mode: the Select.req the library sent on its own after the connect becomes an open transaction"""
        deadline = time.monotonic() + 5
        while time.monotonic() < deadline:
            blocks = [b for b in split_frames(self.rig.conn.sent[before:]) if b.header.s_type.value == 1]
            if blocks and self.auto_holders:
                break
            time.sleep(0.0005)
        else:
            raise common.Wedged("the active endpoint did not send Select.req after the connect")
        system = blocks[0].header.system
        self.requesters[system] = (self.proto._select_req_thread, self.auto_holders.pop())
        return system

    def new_outputs(self, own_requests=()):
        blocks = split_frames(self.rig.conn.sent[self.known_sent:])
        self.known_sent = len(self.rig.conn.sent)
        outs = []
        for b in blocks:
            h = b.header
            st = h.s_type.value
            if st == ST["REJECT"]:
                outs.append(f"(OutReject {L.z(h.system)} {L.z(h.function)})")
            elif st == ST["SEPARATE"]:
                outs.append(f"(OutCtrl {L.z(st)} {L.z(0)})")
            elif st == 0:
                outs.append(f"(OutCtrl {L.z(0)} {L.z(h.system)})")
            else:
                outs.append(f"(OutCtrl {L.z(st)} {L.z(h.system)})")
        for m in self.rig.app_messages:
            outs.append(f"(OutDeliver {L.z(m.header.system)})")
        self.rig.app_messages.clear()
        for system in self.resolved:
            outs.append(f"(OutResolve {L.z(system)})")
        self.resolved.clear()
        return outs

    def state(self):
        return self.proto.connection_state.current.value

    def _requester_parked(self, system):
        """the requester thread sits in Queue.get on an empty queue (CPython: a waiter on the queue's not_empty condition)"""
        q = self.proto._response_queues.get(system)
        return q is not None and q.qsize() == 0 and len(q.not_empty._waiters) > 0

    def settle(self):
        if not self.rig.settle():
            raise common.Wedged("the library threads did not come to rest")
        # a requester whose response arrived runs until it has returned; the others stay parked in their queue
        deadline = time.monotonic() + 5
        for system, (th, holder) in list(self.requesters.items()):
            while not holder["done_event"].is_set() and not self._requester_parked(system):
                if time.monotonic() > deadline:
                    raise common.Wedged("a requester neither waits for its response nor has returned")
                time.sleep(0.0002)
            if holder["done_event"].is_set():
                th.join(2)
                if holder.get("result") is not None:
                    self.resolved.append(system)
                del self.requesters[system]

    def plain_data_request(self):
        """a data transaction of this side: S1F1 (W) sent from an application thread that waits for the reply (kind 0)"""
        import secsgem.secs.functions
        return self.proto.send_and_waitfor_response(secsgem.secs.functions.SecsS01F01())

    def open_request(self, kind):
        """this side sends Select/Deselect/Linktest.req from an application thread and waits for the response"""
        fn = {0: self.plain_data_request, 1: self.plain_select_req, 3: self.proto.send_deselect_req, 5: self.proto.send_linktest_req}[kind]
        before = len(self.rig.conn.sent)
        holder = {"done_event": threading.Event()}

        def work():
            try:
                holder["result"] = fn()
            finally:
                holder["done_event"].set()

        th = threading.Thread(target=work, daemon=True)
        th.start()
        deadline = time.monotonic() + 5
        while len(self.rig.conn.sent) == before and time.monotonic() < deadline:
            time.sleep(0.0005)
        blocks = split_frames(self.rig.conn.sent[before:])
        if not blocks:
            raise common.Wedged("the endpoint's own request was not written to the connection within 5 s")
        system = blocks[0].header.system
        self.requesters[system] = (th, holder)
        return system

    def time_out(self, system):
        """the waiting requester gives up because its timer really runs out (T6 for control requests, T3 for data requests: the
        `except queue.Empty` path of the library, not a None put into its queue)"""
        th, holder = self.requesters.pop(system)
        if not holder["done_event"].wait(5):
            raise common.Wedged("a request whose timeout is 0.25 s did not return within 5 s")
        th.join(2)

    def give_up(self, system):
        """the waiting requester is released without a response: its queue entry disappears"""
        th, holder = self.requesters.pop(system)
        q = self.proto._response_queues.get(system)
        if q is not None:
            q.put_nowait(None)  # response None = what a timeout returns
        th.join(2)

    def close(self):
        try:
            for system in list(self.requesters):
                self.give_up(system)
        finally:
            self.rig.stop()


def run_history(events, active=False):
    """events: list of tuples; returns (coq events, outs per event, states per event)"""
    ses = Session(active)
    coq_events, outs, states = [], [], []
    sys_map = {}
    try:
        for ev in events:
            kind = ev[0]
            if kind == "connected":
                was = ses.state()
                before = len(ses.rig.conn.sent)
                try:
                    ses.rig.conn.connect()
                except Exception:  # noqa: BLE001
                    pass
                coq_events.append("EvConnected")
                if active and was == 0:
                    system = ses.adopt_auto_select(before)
                    sys_map["auto"] = system
                    outs.append([])
                    states.append(2)
                    coq_events.append(f"(EvOpen 1 {L.z(system)})")
                ses.settle()
            elif kind == "connected_with":
                # data already received when the connection is reported (TcpServerConnection starts its receiver before
                # on_connected). Adverse schedule: the 'connect' transition waits until the receive path has run as far as it can.
                _, stype, system, status = ev
                machine = ses.proto._connection_state
                plain_connect = machine.connect

                def late_connect():
                    ses.rig.settle(2.0)
                    return plain_connect()

                machine.connect = late_connect
                try:
                    ses.rig.conn.on_data({"source": ses.rig.conn, "data": frame(stype, system, function=status)})
                    try:
                        ses.rig.conn.connect()
                    except Exception:  # noqa: BLE001
                        pass
                finally:
                    del machine.connect
                coq_events.append("EvConnected")
                outs.append([])
                states.append(2)
                coq_events.append(f"(EvCtrl {L.z(stype)} {L.z(system)} {L.z(status)})")
            elif kind == "closing":
                if ses.rig.conn.connected:   # TcpConnection.disconnect() does nothing without a running connection
                    ses.rig.conn._disconnecting = True
                coq_events.append("EvClosing")
            elif kind == "closed":
                if not ses.rig.conn.connected:
                    continue            # there is no connection that could end
                ses.rig.conn.peer_close()
                coq_events.append("EvClosed")
            elif kind == "ctrl":
                _, stype, system, status = ev
                system = sys_map.get(system, system)
                if isinstance(system, str) or not ses.rig.conn.connected:
                    continue            # refers to a request of ours that was never opened in this history / nothing arrives without a connection
                ses.rig.conn.feed(frame(stype, system, function=status))
                ses.settle()
                coq_events.append(f"(EvCtrl {L.z(stype)} {L.z(system)} {L.z(status)})")
            elif kind == "data":
                _, system, s, f, w, wellformed = ev
                system = sys_map.get(system, system)
                if isinstance(system, str) or not ses.rig.conn.connected:
                    continue
                body = b"" if wellformed else b"\x01"
                ses.rig.conn.feed(frame(0, system, stream=s, function=f, w=w, body=body, session=0))
                ses.settle()
                coq_events.append(f"(EvData {L.z(system)} {L.bool_(bool(w) or (f % 2 == 1 and s != 9))} {L.bool_(wellformed)})")
            elif kind == "open":
                _, stype, tag = ev
                if not ses.rig.conn.connected:
                    continue
                system = ses.open_request(stype)
                sys_map[tag] = system
                ses.settle()
                coq_events.append(f"(EvOpen {L.z(stype)} {L.z(system)})")
            elif kind == "open_timeout":
                # a request whose timer really runs out: EvOpen, then - 0.25 s later - EvGiveUp
                _, stype, tag = ev
                if not ses.rig.conn.connected:
                    continue
                t = ses.rig.settings.timeouts
                keep = (t.t3, t.t6)
                t.t3 = t.t6 = 0.25
                try:
                    system = ses.open_request(stype)
                finally:
                    pass
                sys_map[tag] = system
                coq_events.append(f"(EvOpen {L.z(stype)} {L.z(system)})")
                outs.append(ses.new_outputs())
                states.append(ses.state())
                try:
                    ses.time_out(system)
                finally:
                    t.t3, t.t6 = keep
                ses.settle()
                coq_events.append(f"(EvGiveUp {L.z(system)})")
            elif kind == "giveup":
                system = sys_map.get(ev[1])
                if system is None or system not in ses.requesters:
                    continue
                ses.give_up(system)
                ses.settle()
                coq_events.append(f"(EvGiveUp {L.z(system)})")
            else:
                raise ValueError(kind)
            ses.settle()
            outs.append(ses.new_outputs())
            states.append(ses.state())
    finally:
        ses.close()
    return coq_events, outs, states


def case_lit(events, active=False):
    ce, outs, states = common.with_deadline(lambda: run_history(events, active), 40.0)
    return ("{| w_events := [" + ";".join(ce) + "]; w_outs := [" + ";".join("[" + ";".join(o) + "]" for o in outs) + "]; w_states := ["
            + ";".join(f"{s}%nat" for s in states) + "] |}")


def rand_history(rnd, n, active=False):
    evs = [("connected",)]
    tags = ["auto"] if active else []
    for _ in range(n):
        c = rnd.random()
        if c < 0.30:
            stype = rnd.choice([1, 1, 3, 5, 2, 4, 6, 7, 1, 3, 5, 2, 4, 6, 7, 1, 5, 9])
            if stype in (2, 4, 6, 7) and tags and rnd.random() < 0.7:
                system = rnd.choice(tags)        # answers one of our open requests (mapped to the real system id)
            else:
                system = rnd.choice([1, 7, 0xFFFFFFFF, 12345])
            evs.append(("ctrl", stype, system, rnd.choice([0, 0, 0, 1, 3])))
        elif c < 0.55:
            s, f = rnd.choice([(1, 1), (1, 13), (6, 11), (99, 1), (1, 2), (127, 255)])
            evs.append(("data", rnd.choice([5, 9, 77] + tags), s, f, rnd.random() < 0.5, rnd.random() < 0.85))
        elif c < 0.7:
            tag = f"t{len(tags)}"
            tags.append(tag)
            evs.append(("open", rnd.choice([1, 3, 5, 0, 0]), tag))
        elif c < 0.78 and tags:
            evs.append(("giveup", rnd.choice(tags)))
        elif c < 0.80:
            tag = f"t{len(tags)}"
            tags.append(tag)
            evs.append(("open_timeout", rnd.choice([1, 3, 5, 0]), tag))
        elif c < 0.86:
            evs.append(("closed",))
            evs.append(("connected",))
        elif c < 0.92:
            evs.append(("closing",))
        else:
            evs.append(("ctrl", 1, rnd.choice([3, 4]), 0))
    return evs


WEDGED = []


def add_case(lits, kind, hist, active=False):
    if len(WEDGED) >= 3:
        return
    try:
        lits.append((kind, case_lit(hist, active=active), hist))
    except common.Wedged as exc:
        WEDGED.append({"kind": kind, "history": hist, "active": active, "blocked_in": str(exc)})


EVENTS = [("ctrl", 1, 8, 0), ("ctrl", 3, 9, 0), ("ctrl", 5, 10, 0), ("ctrl", 2, 11, 0), ("ctrl", 2, "t0", 0), ("ctrl", 4, "t0", 1), ("ctrl", 7, "t0", 0),
          ("data", 12, 1, 1, True, True), ("data", "t0", 1, 2, False, True), ("open", 1, "t0"), ("open", 3, "t0"), ("giveup", "t0"), ("closing",), ("closed",), ("connected",)]


def exhaustive(depth):
    import itertools
    for pre in ([("connected",)], [("connected",), ("ctrl", 1, 7, 0)]):
        for seq in itertools.product(EVENTS, repeat=depth):
            yield pre + list(seq)


def gen_cases(rnd, tier):
    lits = []
    del WEDGED[:]
    for k, h in enumerate(exhaustive(3 if tier == "thorough" else 2)):
        if tier == "thorough" or k % 2 == 0:
            add_case(lits, "exhaustive", h, active=(k % 5 == 0))
    n = 120 if tier == "quick" else 1000
    for _ in range(n):
        active = rnd.random() < 0.4
        hist = rand_history(rnd, rnd.randint(1, 12 if tier == "quick" else 40), active)
        add_case(lits, "active" if active else "passive", hist, active)
    # directed ones: data before select, select twice, deselect, stale responses, requests while closing
    directed = [
        [("connected",), ("data", 5, 1, 1, True, True), ("ctrl", 1, 8, 0), ("data", 6, 1, 1, True, True), ("data", 7, 99, 1, True, True), ("data", 8, 1, 13, True, False)],
        [("connected",), ("ctrl", 1, 8, 0), ("ctrl", 1, 9, 0), ("ctrl", 3, 10, 0), ("ctrl", 3, 11, 0), ("ctrl", 5, 12, 0)],
        [("connected",), ("ctrl", 2, 8, 0), ("ctrl", 2, 8, 3), ("ctrl", 4, 9, 0), ("ctrl", 9, 10, 0), ("ctrl", 7, 11, 0)],
        [("connected",), ("open", 1, "a"), ("ctrl", 2, "a", 3), ("open", 1, "b"), ("ctrl", 2, "b", 0), ("open", 3, "c"), ("ctrl", 4, "c", 0)],
        [("connected",), ("ctrl", 1, 8, 0), ("closing",), ("ctrl", 5, 9, 0), ("ctrl", 1, 10, 0), ("ctrl", 3, 11, 0), ("closed",), ("connected",), ("ctrl", 5, 12, 0)],
        [("connected",), ("ctrl", 1, 8, 0), ("open", 5, "a"), ("data", "a", 1, 2, False, True), ("open", 5, "b"), ("giveup", "b"), ("ctrl", 6, "b", 0)],
        # a request whose T6 / T3 really ran out is closed: a response that comes later answers nothing and changes nothing
        [("connected",), ("open_timeout", 1, "a"), ("ctrl", 2, "a", 0), ("data", 9, 1, 1, True, True), ("ctrl", 1, 8, 0), ("open_timeout", 3, "b"), ("ctrl", 4, "b", 0),
         ("data", 10, 1, 1, True, True), ("open_timeout", 5, "c"), ("ctrl", 6, "c", 0), ("open_timeout", 0, "d"), ("data", "d", 1, 2, False, True)],
        # D77: a data secondary answers an open DATA transaction only; with the system bytes of an open Linktest / Deselect / Select request it is
        # a message for the application, the control request stays open and is answered by its own response afterwards
        [("connected",), ("ctrl", 1, 8, 0), ("open", 5, "a"), ("data", "a", 1, 2, False, True), ("ctrl", 6, "a", 0), ("open", 0, "d"), ("data", "d", 1, 2, False, True),
         ("open", 3, "c"), ("data", "c", 6, 12, False, True), ("data", "c", 9, 5, False, True), ("ctrl", 4, "c", 0)],
        [("connected",), ("open", 1, "a"), ("ctrl", 1, 8, 0), ("data", "a", 1, 2, False, True), ("data", "a", 1, 0, False, True), ("ctrl", 2, "a", 0), ("open", 0, "d"),
         ("data", "d", 1, 1, True, True), ("data", "d", 1, 14, False, True), ("open", 0, "e"), ("giveup", "e"), ("data", "e", 1, 2, False, True)],
        # a response of ANOTHER type under the system bytes of an open control request: no effect, the request stays open
        [("connected",), ("open", 5, "a"), ("ctrl", 2, "a", 0), ("data", 9, 1, 1, True, True), ("ctrl", 4, "a", 0), ("ctrl", 6, "a", 0), ("ctrl", 1, 8, 0), ("open", 5, "b"), ("ctrl", 4, "b", 0),
         ("data", 10, 1, 1, True, True), ("open", 3, "c"), ("ctrl", 6, "c", 0), ("ctrl", 2, "c", 0), ("ctrl", 4, "c", 0), ("ctrl", 6, "b", 0)],
        # a primary of the peer (W-bit) that carries the system bytes of one of our open transactions is delivered, the transaction stays open
        [("connected",), ("ctrl", 1, 8, 0), ("open", 5, "a"), ("data", "a", 1, 1, True, True), ("data", "a", 2, 17, True, True), ("ctrl", 6, "a", 0), ("data", "a", 1, 1, True, True)],
        # Reject.req for an open transaction and for none; Linktest.rsp for an open Select.req
        [("connected",), ("ctrl", 1, 8, 0), ("open", 5, "a"), ("ctrl", 7, "a", 0), ("ctrl", 7, 99, 0), ("open", 3, "b"), ("ctrl", 7, "b", 2), ("data", 9, 1, 1, True, True)],
        # a request already in flight when the connection is accepted
        [("connected_with", 1, 8, 0), ("data", 9, 1, 1, True, True)],
        [("connected_with", 5, 8, 0), ("ctrl", 1, 9, 0)],
        [("connected",), ("ctrl", 1, 8, 0), ("closed",), ("connected_with", 1, 9, 0), ("data", 9, 1, 1, True, True)],
        # simultaneous select: both sides send Select.req; the peer's Select.rsp arrives when its Select.req was accepted already
        [("connected",), ("open", 1, "a"), ("ctrl", 1, 8, 0), ("ctrl", 2, "a", 0), ("data", 9, 1, 1, True, True)],
        [("connected",), ("ctrl", 1, 8, 0), ("open", 3, "a"), ("ctrl", 3, 9, 0), ("ctrl", 4, "a", 0), ("data", 9, 1, 1, True, True)],
    ]
    for h in directed:
        add_case(lits, "directed", h)
    # the active endpoint: its own Select.req accepted, refused, unanswered, crossed with the peer's Select.req
    for h in [[("connected",), ("ctrl", 2, "auto", 0), ("data", 9, 1, 1, True, True)],
              [("connected",), ("ctrl", 2, "auto", 1), ("data", 9, 1, 1, True, True)],
              [("connected",), ("giveup", "auto"), ("ctrl", 2, "auto", 0), ("data", 9, 1, 1, True, True)],
              [("connected",), ("ctrl", 1, 8, 0), ("ctrl", 2, "auto", 0), ("data", 9, 1, 1, True, True)],
              [("connected",), ("ctrl", 2, "auto", 0), ("closed",), ("connected",), ("ctrl", 2, "auto", 0), ("ctrl", 5, 3, 0)]]:
        add_case(lits, "directed-active", h, True)
    return lits


HEADER = "From SG Require Import Base.Prelude Spec.E37Session Model.HsmsSession Run.C05Run.\nOpen Scope Z_scope.\n"


def evaluate(lits, prefix, shard=100):
    shards, maps = [], []
    idx = list(range(len(lits)))
    for s in range(0, len(idx), shard):
        part = idx[s : s + shard]
        maps.append(part)
        shards.append("Definition cs : list c05case := [\n" + ";\n".join(lits[i][1] for i in part) + "\n].\nEval vm_compute in run_c05 cs.\n")
    outs = common.coq_eval_shards(prefix, HEADER, shards)
    bad, skipped, checked, errors = [], 0, 0, []
    for part, (ok, text) in zip(maps, outs):
        parsed = common.parse_triples(text) if ok else None
        if parsed is None:
            errors.append(text[-800:])
            continue
        b, sk, ch = parsed
        skipped += sk
        checked += ch
        bad.extend((part[i], m, s) for i, m, s in b)
    return bad, {"skipped_unmodelled": skipped, "spec_checked": checked, "eval_errors": errors, "observed": len(lits)}


SPEC_CODES = {31: "the messages sent / deliveries differ from what E37 prescribes for this event", 32: "the session state after the event is not the state E37 prescribes",
              33: "history and observation have different lengths (rig)", 36: "Separate.req received: the session must become NOT CONNECTED"}
MODEL_CODES = {12: "model and implementation produce different outputs", 13: "model and implementation reach different connection states"}


def run(tier, replay=None):
    import json
    import logging
    from collections import Counter
    logging.disable(logging.CRITICAL)
    report = common.Report("C05", tier)
    if replay:
        doc = json.load(open(replay))
        print(json.dumps(doc, indent=1)[:3000])
        if doc.get("history"):
            print("re-run on the implementation now:", case_lit([tuple(e) for e in doc["history"]], active=doc.get("active", False)))
        return 0
    proof = common.prove(report, "C05", ["statemachines", "protoconsts", "hsmsctrl"], extra_targets=["Run/C05Run.vo"])
    ok, log = common.coq_make(["Run/C05Run.vo"])
    if not ok:
        report.violation({"kind": "broken-obligation", "obligation": "model Run/C05Run.vo does not build against the regenerated connection machine", "detail": log[-1500:], "also": proof.get("broken")}, False, tag="modelbuild")
        return report.finish()
    rnd = common.rng("c05")
    lits = gen_cases(rnd, tier)
    bad, stats = evaluate(lits, "c05")
    for w in WEDGED[:2]:
        report.violation({"kind": "counterexample", "what": "the endpoint blocked while this history was played (a library call did not return within 40 s)", **w,
                          "broken_obligation": proof.get("broken")}, True, tag="wedged")
    known = {e["id"]: e for e in common.known_findings("C05") if e.get("status") == "open"}
    spec_bad = [(i, m, sc) for i, m, sc in bad if sc >= 30]
    model_bad = [(i, m, sc) for i, m, sc in bad if m >= 10 and sc < 30]
    seen_known = 0
    reported = set()
    for i, m, sc in spec_bad:
        if sc == 36 and "C05-separate-ignored" in known:
            seen_known += 1
            continue
        if sc in reported:
            continue
        reported.add(sc)
        report.violation({"kind": "counterexample", "what": SPEC_CODES.get(sc, str(sc)), "history": lits[i][2], "active": lits[i][0] in ("active", "directed-active"),
                          "observed_case": lits[i][1], "model_code": m, "broken_obligation": proof.get("broken")}, True, tag=f"spec{sc}")
    if seen_known:
        report.known(f"C05-separate-ignored: {known['C05-separate-ignored']['text']} ({seen_known} histories of this run)")
    if not spec_bad or all(sc == 36 for _, _, sc in spec_bad):
        if model_bad:
            i, m, sc = model_bad[0]
            report.violation({"kind": "broken-correspondence", "obligation": "Model/HsmsSession.v no longer behaves like secsgem/hsms/protocol.py: " + MODEL_CODES.get(m, str(m)),
                              "history": lits[i][2], "active": lits[i][0] in ("active", "directed-active"), "observed_case": lits[i][1], "count": len(model_bad)}, False, tag="model")
        elif stats["eval_errors"]:
            report.violation({"kind": "broken-correspondence", "obligation": "case evaluation failed", "detail": stats["eval_errors"][0]}, False, tag="eval")
        elif not proof["ok"]:
            report.violation({"kind": "broken-obligation", "obligation": proof["broken"], "searched": f"{len(lits)} histories on the implementation, none violates the E37 reference"}, False, tag="proof")
    cov = report.coverage
    cov["evaluations"] = len(lits)
    cov["distinct_nontrivial"] = len({lit for _, lit, _ in lits})
    cov["rule"] = ("a real HsmsProtocol with its own receiver/dispatcher threads on an in-memory connection is driven through random and directed histories "
                   "(connect, peer close, begin-closing, every control SType with matching/non-matching system bytes and status, data messages with/without W-bit "
                   "and with a malformed body, own Select/Deselect/Linktest requests opened from application threads, give-up); passive and active mode; after "
                   "every event the frames sent, deliveries, resolved requesters and connection_state.current are compared with the model and with the E37 reference")
    cov["correspondence"] = {k: v for k, v in stats.items() if k != "eval_errors"}
    cov["distribution"] = {"kinds": dict(Counter(k for k, _, _ in lits)), "events": dict(Counter(e[0] if e[0] != "ctrl" else f"ctrl{e[1]}" for _, _, h in lits for e in h)),
                           "history_lengths": dict(Counter(min(len(h) // 10 * 10, 40) for _, _, h in lits))}
    cov["samples"] = [repr(h)[:300] for _, _, h in lits[:: max(1, len(lits) // 5)][:5]]
    return report.finish()
