"""Statement translator: the bodies of the bit-level header functions -> coq/Gen/Py{VarHdr,ItemHdr,HsmsHdr,SecsIHdr}.v (fail-closed;
entry points gen_pyvarhdr.py, gen_pyitemhdr.py, gen_pyhsmshdr.py, gen_pysecsihdr.py).

Unlike the other translators, which read tables and shapes, this one translates *statements*: a small subset of Python
(assignments, augmented assignments, if with or without else, early return / raise, `for _ in range(n)`, integer and
boolean expressions with & | << >> + - * and comparisons, indexing of a byte string, PacketData.get_one(), struct.pack /
struct.unpack with a literal format, the constructor call of a header class, an enum class applied to a number) into
monadic Gallina over Z.  Whatever is outside the subset raises TranslationError.  The functions:

  secsgem/secs/variables/base.py   Base.encode_item_header, Base.decode_item_header
  secsgem/secs/item.py             Item.encode_item_header, Item._decode_item_header
  secsgem/hsms/header.py           HsmsHeader.encode, HsmsHeader.decode   (+ the property / __init__ chain behind self.X)
  secsgem/secsi/header.py          SecsIHeader.encode, SecsIHeader.decode (+ the same)

`self.X` of a header is followed through its property (`return self._Y`) and the `__init__` chain (`self._Y = param`,
`super().__init__(...)`) to the constructor parameter it holds, so encode is a function of the constructor's arguments and
decode returns them: Proofs/Py*Proofs.v prove the two inverse to each other and equal to Model/Frames.v, Model/Secs2.v
and Model/Item.v for every argument.
"""
from __future__ import annotations

import ast
import os
import sys

from astutil import GEN_DIR, TranslationError, find_class, find_method, parse, write_if_changed

EXC = {"ValueError": "EValue", "TypeError": "EType", "IndexError": "EIndex", "KeyError": "EIndex"}
BINOPS = {ast.BitAnd: "Z.land", ast.BitOr: "Z.lor", ast.RShift: "Z.shiftr", ast.LShift: "Z.shiftl", ast.Add: "Z.add", ast.Sub: "Z.sub",
          ast.Mult: "Z.mul"}
CMPOPS = {ast.Eq: "Z.eqb", ast.Lt: "Z.ltb", ast.LtE: "Z.leb", ast.Gt: "Z.gtb", ast.GtE: "Z.geb"}
STRUCT_WIDTH = {"B": 1, "H": 2, "L": 4, "I": 4, "Q": 8}


def bad(what, node):
    raise TranslationError(f"{what}: unsupported {ast.dump(node)[:120]}")


class Fn:
    """Translation state of one function."""

    def __init__(self, what, self_attr, enums=None, ctor=None, bytes_params=()):
        self.what = what
        self.self_attr = self_attr          # callable: attribute chain (list of names after self) -> (coq name, type)
        self.enums = enums or {}            # enum class name -> coq term of its member list
        self.ctor = ctor                    # (class name, [(param, type)], record constructor) for `return Cls(...)`
        self.env = {}                       # python local -> type
        self.bytes_params = set(bytes_params)
        self.unpacked = None                # name of the struct.unpack result, number of fields
        self.tmp = 0
        self.used_self = {}                 # coq name -> type, in order of first use

    def fresh(self):
        self.tmp += 1
        return f"t{self.tmp}"

    # ---- expressions: returns (binds, term, type) ----
    def expr(self, node):
        if isinstance(node, ast.Constant):
            if node.value is True or node.value is False:
                return [], "true" if node.value else "false", "bool"
            if type(node.value) is int:
                return [], f"({node.value})", "Z"
            bad(self.what, node)
        if isinstance(node, ast.Name):
            if node.id in self.env:
                return [], f"v_{node.id}", self.env[node.id]
            bad(self.what + ": unknown name", node)
        if isinstance(node, ast.Attribute):
            chain = []
            cur = node
            while isinstance(cur, ast.Attribute):
                chain.append(cur.attr)
                cur = cur.value
            if isinstance(cur, ast.Name) and cur.id == "self":
                name, typ = self.self_attr(list(reversed(chain)))
                self.used_self.setdefault(name, typ)
                return [], name, typ
            bad(self.what, node)
        if isinstance(node, ast.BinOp):
            if type(node.op) not in BINOPS:
                bad(self.what, node)
            b1, t1, y1 = self.expr(node.left)
            b2, t2, y2 = self.expr(node.right)
            if y1 != "Z" or y2 != "Z":
                bad(self.what + ": arithmetic on non-integers", node)
            return b1 + b2, f"({BINOPS[type(node.op)]} {t1} {t2})", "Z"
        if isinstance(node, ast.Compare):
            binds, terms = [], []
            for sub in [node.left] + list(node.comparators):
                b, t, y = self.expr(sub)
                if y != "Z":
                    bad(self.what + ": comparison of non-integers", node)
                binds += b
                terms.append(t)
            parts = []
            for i, op in enumerate(node.ops):
                if isinstance(op, ast.NotEq):
                    parts.append(f"(negb (Z.eqb {terms[i]} {terms[i + 1]}))")
                elif type(op) in CMPOPS:
                    parts.append(f"({CMPOPS[type(op)]} {terms[i]} {terms[i + 1]})")
                else:
                    bad(self.what, node)
            if len(parts) > 1 and binds:
                bad(self.what + ": chained comparison with effects", node)
            return binds, parts[0] if len(parts) == 1 else "(" + " && ".join(parts) + ")", "bool"
        if isinstance(node, ast.BoolOp):
            vals = [self.expr(v) for v in node.values]
            if any(b for b, _, _ in vals) or any(y != "bool" for _, _, y in vals):
                bad(self.what, node)
            return [], "(" + (" && " if isinstance(node.op, ast.And) else " || ").join(t for _, t, _ in vals) + ")", "bool"
        if isinstance(node, ast.UnaryOp) and isinstance(node.op, ast.Not):
            b, t, y = self.expr(node.operand)
            if y != "bool":
                bad(self.what, node)
            return b, f"(negb {t})", "bool"
        if isinstance(node, ast.Subscript):
            base = node.value
            if isinstance(base, ast.Name) and self.unpacked and base.id == self.unpacked[0]:
                if not (isinstance(node.slice, ast.Constant) and type(node.slice.value) is int and 0 <= node.slice.value < self.unpacked[1]):
                    bad(self.what + ": index into the unpacked fields", node)
                return [], f"r{node.slice.value}", "Z"
            if isinstance(base, ast.Call) and isinstance(base.func, ast.Name) and base.func.id == "bytearray" and len(base.args) == 1 and not base.keywords:
                base = base.args[0]
            if isinstance(base, ast.Name) and base.id in self.bytes_params:
                b, t, y = self.expr(node.slice)
                if y != "Z":
                    bad(self.what, node)
                tmp = self.fresh()
                return b + [f"do {tmp} <- zidx v_{base.id} {t};"], tmp, "Z"
            bad(self.what, node)
        if isinstance(node, ast.Call):
            fun = node.func
            if isinstance(fun, ast.Name) and fun.id == "len" and len(node.args) == 1 and isinstance(node.args[0], ast.Name) \
                    and node.args[0].id in self.bytes_params and not node.keywords:
                return [], f"(Z.of_nat (List.length v_{node.args[0].id}))", "Z"
            if isinstance(fun, ast.Attribute) and fun.attr == "get_one" and isinstance(fun.value, ast.Name) and fun.value.id in self.bytes_params \
                    and not node.args and not node.keywords:
                tmp = self.fresh()
                return [f"do ({tmp}, v_{fun.value.id}) <- get_one v_{fun.value.id};"], tmp, "Z"
            if isinstance(fun, ast.Name) and fun.id in self.enums and len(node.args) == 1 and not node.keywords:
                b, t, y = self.expr(node.args[0])
                if y != "Z":
                    bad(self.what, node)
                tmp = self.fresh()
                return b + [f"do {tmp} <- enum_of {self.enums[fun.id]} {t};"], tmp, "Z"
        bad(self.what, node)

    # ---- the value of a return statement: a term of type res _ ----
    def ret(self, node):
        if isinstance(node, ast.Tuple):
            binds, terms = [], []
            for e in node.elts:
                b, t, _ = self.expr(e)
                binds += b
                terms.append(t)
            terms += [f"v_{p}" for p in sorted(self.mutated_bytes)]
            return " ".join(binds) + " Ok (" + ", ".join(terms) + ")"
        if isinstance(node, ast.Call):
            fun = node.func
            # bytes(bytearray((a, b, ...)))
            if isinstance(fun, ast.Name) and fun.id == "bytes" and len(node.args) == 1 and isinstance(node.args[0], ast.Call) \
                    and isinstance(node.args[0].func, ast.Name) and node.args[0].func.id == "bytearray" and len(node.args[0].args) == 1 \
                    and isinstance(node.args[0].args[0], ast.Tuple):
                binds, terms = [], []
                for e in node.args[0].args[0].elts:
                    b, t, y = self.expr(e)
                    if y != "Z":
                        bad(self.what, e)
                    binds += b
                    terms.append(t)
                return " ".join(binds) + " bytes_of [" + "; ".join(terms) + "]"
            # struct.pack(">...", a, b, ...): the fields, the format is regenerated by gen_protoconsts
            if isinstance(fun, ast.Attribute) and fun.attr == "pack" and isinstance(fun.value, ast.Name) and fun.value.id == "struct":
                fmt = node.args[0]
                if not (isinstance(fmt, ast.Constant) and isinstance(fmt.value, str) and fmt.value.startswith(">")) or node.keywords:
                    bad(self.what + ": struct.pack format", node)
                if len(fmt.value) - 1 != len(node.args) - 1:
                    bad(self.what + ": struct.pack arity", node)
                binds, terms = [], []
                for e in node.args[1:]:
                    b, t, y = self.expr(e)
                    if y != "Z":
                        bad(self.what, e)
                    binds += b
                    terms.append(t)
                return " ".join(binds) + " Ok [" + "; ".join(terms) + "]"
            # Cls(...): the constructor's arguments by parameter name
            if self.ctor and isinstance(fun, ast.Name) and fun.id == self.ctor[0]:
                params = self.ctor[1]
                if len(node.args) + len(node.keywords) != len(params):
                    bad(self.what + ": every constructor argument must be given", node)
                given = {}
                for (pname, _), arg in zip(params, node.args):
                    given[pname] = arg
                for kw in node.keywords:
                    if kw.arg is None or kw.arg in given or kw.arg not in dict(params):
                        bad(self.what + ": constructor keyword", node)
                    given[kw.arg] = kw.value
                binds, terms = [], []
                # Python evaluates positional arguments, then keywords, left to right; only enum_of can raise and there is one
                for pname, ptype in params:
                    b, t, y = self.expr(given[pname])
                    if y != ptype:
                        bad(self.what + f": constructor argument {pname} has type {y}, expected {ptype}", node)
                    binds += b
                    terms.append(t)
                return " ".join(binds) + f" Ok ({self.ctor[2]} " + " ".join(terms) + ")"
        bad(self.what + ": return value", node)

    # ---- statements ----
    @staticmethod
    def terminates(stmts):
        if not stmts:
            return False
        last = stmts[-1]
        if isinstance(last, (ast.Return, ast.Raise)):
            return True
        if isinstance(last, ast.If):
            return Fn.terminates(last.body) and Fn.terminates(last.orelse)
        return False

    def assigned(self, stmts):
        out = []
        for st in stmts:
            if isinstance(st, ast.Assign) and len(st.targets) == 1 and isinstance(st.targets[0], ast.Name):
                names = [st.targets[0].id]
            elif isinstance(st, ast.AugAssign) and isinstance(st.target, ast.Name):
                names = [st.target.id]
            elif isinstance(st, ast.If):
                names = self.assigned(st.body) + self.assigned(st.orelse)
            elif isinstance(st, ast.For):
                names = self.assigned(st.body)
            else:
                bad(self.what + ": statement inside a block that falls through", st)
            for sub in ast.walk(st):
                if isinstance(sub, ast.Call) and isinstance(sub.func, ast.Attribute) and sub.func.attr == "get_one" and isinstance(sub.func.value, ast.Name):
                    names.append(sub.func.value.id)
            for n in names:
                if n not in out:
                    out.append(n)
        return out

    def state_tuple(self, names):
        for n in names:
            if n not in self.env:
                bad(self.what + f": {n} assigned in a block but not defined before it", ast.Name(id=n))
        return "v_" + names[0] if len(names) == 1 else "(" + ", ".join("v_" + n for n in names) + ")"

    def block(self, stmts, cont):
        """cont: None = the function must have returned; else the term to end with (falls through)."""
        if not stmts:
            if cont is None:
                raise TranslationError(f"{self.what}: control reaches the end of the function without return")
            return cont
        st, rest = stmts[0], stmts[1:]
        if isinstance(st, ast.Expr) and isinstance(st.value, ast.Constant) and isinstance(st.value.value, str):
            return self.block(rest, cont)
        if isinstance(st, ast.Return):
            if cont is not None or st.value is None:
                bad(self.what + ": return inside a block that falls through", st)
            return self.ret(st.value)
        if isinstance(st, ast.Raise):
            exc = st.exc
            name = exc.func.id if isinstance(exc, ast.Call) and isinstance(exc.func, ast.Name) else exc.id if isinstance(exc, ast.Name) else None
            if name not in EXC or cont is not None:
                bad(self.what, st)
            return f"Err {EXC[name]}"
        if isinstance(st, ast.Assign) and len(st.targets) == 1 and isinstance(st.targets[0], ast.Name):
            target = st.targets[0].id
            # res = struct.unpack(">...", data): the fields are the parameters r0 .. r(n-1)
            val = st.value
            if isinstance(val, ast.Call) and isinstance(val.func, ast.Attribute) and val.func.attr == "unpack" and isinstance(val.func.value, ast.Name) \
                    and val.func.value.id == "struct":
                fmt = val.args[0]
                if not (isinstance(fmt, ast.Constant) and isinstance(fmt.value, str) and fmt.value.startswith(">")) or len(val.args) != 2 \
                        or self.unpacked or not all(c in STRUCT_WIDTH for c in fmt.value[1:]):
                    bad(self.what + ": struct.unpack", st)
                self.unpacked = (target, len(fmt.value) - 1)
                return self.block(rest, cont)
            b, t, y = self.expr(val)
            self.env[target] = y
            return " ".join(b) + f" let v_{target} := {t} in " + self.block(rest, cont)
        if isinstance(st, ast.AugAssign) and isinstance(st.target, ast.Name):
            target = st.target.id
            if self.env.get(target) != "Z" or type(st.op) not in BINOPS:
                bad(self.what, st)
            b, t, y = self.expr(st.value)
            if y != "Z":
                bad(self.what, st)
            return " ".join(b) + f" let v_{target} := ({BINOPS[type(st.op)]} v_{target} {t}) in " + self.block(rest, cont)
        if isinstance(st, ast.If):
            b, t, y = self.expr(st.test)
            if y != "bool":
                bad(self.what + ": condition is not a boolean", st.test)
            pre = " ".join(b)
            if self.terminates(st.body) and cont is None:
                saved = dict(self.env)
                then = self.block(st.body, None)
                self.env = saved
                return f"{pre} if {t} then ({then}) else ({self.block(list(st.orelse) + rest, None)})"
            names = self.assigned(list(st.body) + list(st.orelse))
            tup = self.state_tuple(names)
            then = self.block(st.body, f"Ok {tup}")
            other = self.block(st.orelse, f"Ok {tup}")
            return f"{pre} do {tup} <- (if {t} then ({then}) else ({other})); " + self.block(rest, cont)
        if isinstance(st, ast.For):
            it = st.iter
            if not (isinstance(st.target, ast.Name) and st.target.id == "_" and isinstance(it, ast.Call) and isinstance(it.func, ast.Name)
                    and it.func.id == "range" and len(it.args) == 1 and not it.keywords and not st.orelse):
                bad(self.what + ": loop", st)
            b, t, y = self.expr(it.args[0])
            if y != "Z" or b:
                bad(self.what, st)
            names = self.assigned(st.body)
            tup = self.state_tuple(names)
            body = self.block(st.body, f"Ok {tup}")
            pat = tup if len(names) == 1 else "'" + tup
            return f"do {tup} <- for_range {t} (fun st => let {pat} := st in {body}) {tup}; " + self.block(rest, cont)
        bad(self.what, st)


# ---------------------------------------------------------------------------------------------------------------------
def init_params(fn, what):
    args = fn.args
    if args.vararg or args.kwarg or args.kwonlyargs or args.posonlyargs:
        bad(what + ": signature", fn)
    out = []
    for a in args.args[1:]:
        ann = a.annotation
        typ = {"int": "Z", "bool": "bool"}.get(ann.id if isinstance(ann, ast.Name) else None)
        out.append((a.arg, typ, ann.id if isinstance(ann, ast.Name) else None))
    return out


def resolve_header_attrs(rel, clsname, baserel, basename, enum_names):
    """property name -> constructor parameter of `clsname` (through `return self._y`, `self._y = p`, `super().__init__(...)`)."""
    cls = find_class(parse(rel), clsname, rel)
    base = find_class(parse(baserel), basename, baserel)
    if [ast.unparse(b) for b in cls.bases] != ["secsgem.common." + basename]:
        raise TranslationError(f"{rel}: {clsname} is expected to derive from {basename} alone")
    cinit, binit = find_method(cls, "__init__"), find_method(base, "__init__")
    cparams, bparams = init_params(cinit, clsname), init_params(binit, basename)
    params = []
    for name, typ, ann in cparams:
        if typ is None:
            if ann not in enum_names:
                raise TranslationError(f"{rel}: {clsname}.__init__ parameter {name}: annotation not understood")
            typ = "Z"
        params.append((name, typ))

    def stores(init, names, what):
        """self._y = <param> assignments of an __init__ body: {_y: param}; everything else must be a docstring or the super call."""
        out, sup = {}, None
        for st in init.body:
            if isinstance(st, ast.Expr) and isinstance(st.value, ast.Constant):
                continue
            if isinstance(st, ast.Assign) and len(st.targets) == 1 and isinstance(st.targets[0], ast.Attribute) and isinstance(st.targets[0].value, ast.Name) \
                    and st.targets[0].value.id == "self" and isinstance(st.value, ast.Name) and st.value.id in names:
                if st.targets[0].attr in out:
                    bad(what + ": attribute stored twice", st)
                out[st.targets[0].attr] = st.value.id
                continue
            if isinstance(st, ast.Expr) and isinstance(st.value, ast.Call) and isinstance(st.value.func, ast.Attribute) and st.value.func.attr == "__init__" \
                    and isinstance(st.value.func.value, ast.Call) and isinstance(st.value.func.value.func, ast.Name) and st.value.func.value.func.id == "super" \
                    and sup is None and not st.value.keywords and all(isinstance(a, ast.Name) and a.id in names for a in st.value.args):
                sup = [a.id for a in st.value.args]
                continue
            bad(what + ".__init__", st)
        return out, sup
    cstore, sup = stores(cinit, [p for p, _ in params], clsname)
    bstore, bsup = stores(binit, [p for p, _, _ in bparams], basename)
    if sup is None or bsup is not None or len(sup) != len(bparams):
        raise TranslationError(f"{rel}: super().__init__ call of {clsname} not understood")
    through = {bp[0]: arg for bp, arg in zip(bparams, sup)}            # base parameter -> derived parameter
    held = dict(cstore)
    for attr, bp in bstore.items():
        if attr in held:
            raise TranslationError(f"{rel}: {attr} stored by both __init__")
        held[attr] = through[bp]

    def getter(owner, name):
        found = [n for n in owner.body if isinstance(n, ast.FunctionDef) and n.name == name]
        if len(found) != 1:
            return None
        fn = found[0]
        if not any(isinstance(d, ast.Name) and d.id == "property" for d in fn.decorator_list):
            return None
        body = [s for s in fn.body if not (isinstance(s, ast.Expr) and isinstance(s.value, ast.Constant))]
        if len(body) == 1 and isinstance(body[0], ast.Return) and isinstance(body[0].value, ast.Attribute) and isinstance(body[0].value.value, ast.Name) \
                and body[0].value.value.id == "self":
            return body[0].value.attr
        raise TranslationError(f"{rel}: property {name} is not `return self._x`")
    ptype = dict(params)
    enum_params = {name for name, typ, ann in cparams if ann in enum_names}

    def self_attr(chain):
        prop = chain[0]
        attr = getter(cls, prop) or getter(base, prop)
        if attr is None or attr not in held:
            raise TranslationError(f"{rel}: self.{prop} cannot be traced to a constructor parameter of {clsname}")
        param = held[attr]
        if param in enum_params:
            if chain[1:] != ["value"]:
                raise TranslationError(f"{rel}: self.{'.'.join(chain)}: an enum member is only used through .value")
        elif len(chain) != 1:
            raise TranslationError(f"{rel}: self.{'.'.join(chain)} not understood")
        return f"c_{param}", ptype[param]
    return cls, params, self_attr


def opaque_self(allowed):
    def self_attr(chain):
        if len(chain) == 1 and chain[0] in allowed:
            return f"self_{chain[0].lstrip('_')}", "Z"
        if chain[:2] == ["__class__", "__name__"]:
            raise TranslationError("self.__class__.__name__ outside a raise statement")
        raise TranslationError(f"self.{'.'.join(chain)} not understood")
    return self_attr


def plain_function(rel, clsname, meth, self_attr, int_params, bytes_params, name, mutates=()):
    fn = find_method(find_class(parse(rel), clsname, rel), meth)
    what = f"{rel}:{clsname}.{meth}"
    got = [a.arg for a in fn.args.args[1:]]
    if got != list(int_params) + list(bytes_params) and got != list(bytes_params) + list(int_params):
        raise TranslationError(f"{what}: parameters {got} (expected {int_params} and {bytes_params})")
    tr = Fn(what, self_attr, bytes_params=bytes_params)
    tr.mutated_bytes = set(mutates)
    for p in int_params:
        tr.env[p] = "Z"
    for p in bytes_params:
        tr.env[p] = "bytes"
    body = tr.block(list(fn.body), None)
    params = [f"({n} : Z)" for n in tr.used_self] + [f"(v_{p} : {'list N' if p in bytes_params else 'Z'})" for p in got]
    return f"Definition {name} {' '.join(params)} :=\n  {body}.\n"


def header_functions(layer, rel, clsname, prefix, enum_src=None):
    enums = {}
    if enum_src:
        enums = {enum_src: "hsms_stypes"}
    cls, params, self_attr = resolve_header_attrs(rel, clsname, "secsgem/common/header.py", "Header", set(enums))
    out = [f"Record {prefix}_args := {prefix}_mk {{ " + "; ".join(f"{prefix}_{p} : {t}" for p, t in params) + " }."]
    # encode
    enc = find_method(cls, "encode")
    if [a.arg for a in enc.args.args] != ["self"]:
        raise TranslationError(f"{rel}: {clsname}.encode signature")
    tr = Fn(f"{rel}:{clsname}.encode", self_attr)
    tr.mutated_bytes = set()
    body = tr.block(list(enc.body), None)
    out.append(f"Definition {prefix}_encode (a : {prefix}_args) : res (list Z) :=\n  "
               + " ".join(f"let c_{p} := {prefix}_{p} a in" for p, _ in params) + f"\n  {body}.")
    # decode
    dec = find_method(cls, "decode")
    if [a.arg for a in dec.args.args] != ["cls", "data"] or not any(isinstance(d, ast.Name) and d.id == "classmethod" for d in dec.decorator_list):
        raise TranslationError(f"{rel}: {clsname}.decode signature")
    tr = Fn(f"{rel}:{clsname}.decode", self_attr, enums=enums, ctor=(clsname, params, f"{prefix}_mk"))
    tr.mutated_bytes = set()
    body = tr.block(list(dec.body), None)
    if not tr.unpacked:
        raise TranslationError(f"{rel}: {clsname}.decode does not unpack")
    rs = " ".join(f"r{i}" for i in range(tr.unpacked[1]))
    out.append(f"Definition {prefix}_decode ({rs} : Z) : res {prefix}_args :=\n  {body}.")
    out.append(f"Definition {prefix}_decode_arity : nat := {tr.unpacked[1]}%nat.")
    return "\n".join(out) + "\n"


HEAD = ["(* GENERATED by harness/{script} (statement translator harness/pyfuns.py) from the method bodies named below - do not edit. *)",
        "From SG Require Import Base.Prelude Base.Kinds Base.PyRt Gen.ProtoConsts.", "Open Scope Z_scope.", ""]


def generate_var() -> str:
    out = [h.format(script="gen_pyvarhdr.py") for h in HEAD]
    out.append("(* secsgem/secs/variables/base.py: Base.encode_item_header / Base.decode_item_header *)")
    out.append(plain_function("secsgem/secs/variables/base.py", "Base", "encode_item_header", opaque_self({"format_code"}), ["length"], [],
                              "base_encode_item_header"))
    out.append(plain_function("secsgem/secs/variables/base.py", "Base", "decode_item_header", opaque_self({"format_code"}), ["text_pos"], ["data"],
                              "base_decode_item_header"))
    return "\n".join(out)


def generate_item() -> str:
    out = [h.format(script="gen_pyitemhdr.py") for h in HEAD]
    out.append("(* secsgem/secs/item.py: Item.encode_item_header / Item._decode_item_header (the PacketData that is left is returned too) *)")
    out.append(plain_function("secsgem/secs/item.py", "Item", "encode_item_header", opaque_self({"_hsms_type"}), ["length"], [], "item_encode_item_header"))
    out.append(plain_function("secsgem/secs/item.py", "Item", "_decode_item_header", opaque_self(set()), [], ["data"], "item_decode_item_header",
                              mutates=["data"]))
    return "\n".join(out)


def generate_hsms() -> str:
    out = [h.format(script="gen_pyhsmshdr.py") for h in HEAD]
    out.append("(* secsgem/hsms/header.py: HsmsHeader as a function of its constructor's arguments *)")
    out.append(header_functions("hsms", "secsgem/hsms/header.py", "HsmsHeader", "hh", enum_src="HsmsSType"))
    return "\n".join(out)


def generate_secsi() -> str:
    out = [h.format(script="gen_pysecsihdr.py") for h in HEAD]
    out.append("(* secsgem/secsi/header.py: SecsIHeader as a function of its constructor's arguments *)")
    out.append(header_functions("secsi", "secsgem/secsi/header.py", "SecsIHeader", "sh"))
    return "\n".join(out)


def main(name, gen, target):
    try:
        changed = write_if_changed(os.path.join(GEN_DIR, target), gen())
        print(f"{name}: {'updated' if changed else 'unchanged'}")
    except TranslationError as exc:
        print(f"TRANSLATION-ERROR {name}: {exc}")
        sys.exit(3)
