"""Translator: HsmsProtocol._process_received_data (the framing loop) and the ByteQueue it reads -> coq/Gen/RxLoop.v (fail-closed).

The loop is translated statement by statement into a fuelled Gallina function over the receive buffer (a list of bytes):

    if len(self._receive_buffer) < N: return                       the guard in front of the loop
    while len(self._receive_buffer) > N:                           one round per unit of fuel
        x = self._receive_buffer.peek(n)                           firstn n buf
        y = struct.unpack(">L", x)[0] + k                          big-endian value of the four bytes + k
        if len(self._receive_buffer) < y: return                   an incomplete frame stays in the buffer
        d = self._receive_buffer.pop(y)                            firstn / skipn
        try: r = HsmsBlock.decode(d)                               the block decoder is a parameter of the generated function
        except (ValueError, struct.error): <log>; continue         a frame that does not decode is dropped, the loop goes on
        if <data message> and <selected> and self._is_reply_to_open_transaction(r): self._dispatch_block(self, r, direct=True); continue
        self._thread.queue_block(self, r)

Statements may come in another order or number; anything outside these forms (another attribute of self read or written - a cached length, a
second buffer -, another call, another exception class) stops the translator.  The ByteQueue methods the loop relies on (peek, pop, __len__, append,
clear) are checked to be the plain slice operations on one bytearray that the list model assumes.
Proofs/RxLoopProofs.v proves the generated function equal to Model/HsmsRx.v's `drain` for every buffer.
"""
from __future__ import annotations

import ast
import os
import sys

from astutil import GEN_DIR, TranslationError, find_class, find_method, parse, write_if_changed

REL = "secsgem/hsms/protocol.py"
BQ = "secsgem/common/byte_queue.py"


def chain(node):
    out = []
    while isinstance(node, ast.Attribute):
        out.append(node.attr)
        node = node.value
    if isinstance(node, ast.Name):
        out.append(node.id)
    return ".".join(reversed(out))


def is_call(node, name):
    return isinstance(node, ast.Call) and chain(node.func) == name


def strip(stmts):
    return [s for s in stmts if not (isinstance(s, ast.Expr) and isinstance(s.value, ast.Constant))]


def check_bytequeue():
    cls = find_class(parse(BQ), "ByteQueue", BQ)

    def body(name):
        return strip(find_method(cls, name).body)

    def under_lock(stmts, what):
        if len(stmts) == 1 and isinstance(stmts[0], ast.With) and len(stmts[0].items) == 1 and chain(stmts[0].items[0].context_expr) == "self._buffer_lock":
            return strip(stmts[0].body)
        raise TranslationError(f"{BQ}: ByteQueue.{what} is not one `with self._buffer_lock:` block")

    def is_prefix_slice(node):
        return (isinstance(node, ast.Subscript) and chain(node.value) == "self._buffer" and isinstance(node.slice, ast.Slice) and node.slice.lower is None
                and isinstance(node.slice.upper, ast.Name) and node.slice.upper.id == "size" and node.slice.step is None)
    init = body("__init__")
    if not any(isinstance(s, ast.Assign) and chain(s.targets[0]) == "self._buffer" and is_call(s.value, "bytearray") and not s.value.args for s in init):
        raise TranslationError(f"{BQ}: ByteQueue._buffer is not an empty bytearray at the start")
    if sum(1 for s in init if isinstance(s, ast.Assign)) != 2:
        raise TranslationError(f"{BQ}: ByteQueue has other state than its buffer and its condition")
    pk = body("peek")
    if not (len(pk) == 1 and isinstance(pk[0], ast.Return) and is_prefix_slice(pk[0].value)):
        raise TranslationError(f"{BQ}: ByteQueue.peek is not `return self._buffer[:size]`")
    pp = under_lock(body("pop"), "pop")
    if not (len(pp) == 3 and isinstance(pp[0], ast.Assign) and is_prefix_slice(pp[0].value) and isinstance(pp[1], ast.Delete) and len(pp[1].targets) == 1
            and is_prefix_slice(pp[1].targets[0]) and isinstance(pp[2], ast.Return) and isinstance(pp[2].value, ast.Name) and pp[2].value.id == pp[0].targets[0].id):
        raise TranslationError(f"{BQ}: ByteQueue.pop is not `data = self._buffer[:size]; del self._buffer[:size]; return data`")
    ln = body("__len__")
    if not (len(ln) == 1 and isinstance(ln[0], ast.Return) and is_call(ln[0].value, "len") and chain(ln[0].value.args[0]) == "self._buffer"):
        raise TranslationError(f"{BQ}: ByteQueue.__len__ is not `return len(self._buffer)`")
    ap = under_lock(body("append"), "append")
    if not (isinstance(ap[0], ast.Expr) and is_call(ap[0].value, "self._buffer.extend") and all(isinstance(s, ast.Expr) and chain(s.value.func).startswith("self._buffer_lock.") for s in ap[1:])):
        raise TranslationError(f"{BQ}: ByteQueue.append does more than extend the buffer and notify")
    cl = under_lock(body("clear"), "clear")
    if not (len(cl) == 1 and isinstance(cl[0], ast.Expr) and is_call(cl[0].value, "self._buffer.clear")):
        raise TranslationError(f"{BQ}: ByteQueue.clear does not just clear the buffer")


class Loop:
    def __init__(self):
        self.env = {}       # python local -> kind: "bytes" | "int" | "block"

    def blen(self, node):
        return is_call(node, "len") and len(node.args) == 1 and chain(node.args[0]) == "self._receive_buffer"

    def int_expr(self, node):
        if isinstance(node, ast.Constant) and type(node.value) is int:
            return f"{node.value}%Z"
        if isinstance(node, ast.Name) and self.env.get(node.id) == "int":
            return f"v_{node.id}"
        if self.blen(node):
            return "(Z.of_nat (List.length buf))"
        if isinstance(node, ast.BinOp) and isinstance(node.op, (ast.Add, ast.Sub)):
            return f"({self.int_expr(node.left)} {'+' if isinstance(node.op, ast.Add) else '-'} {self.int_expr(node.right)})%Z"
        # struct.unpack(">L", x)[0]
        if (isinstance(node, ast.Subscript) and isinstance(node.slice, ast.Constant) and node.slice.value == 0 and is_call(node.value, "struct.unpack") and len(node.value.args) == 2
                and isinstance(node.value.args[0], ast.Constant) and node.value.args[0].value == ">L" and isinstance(node.value.args[1], ast.Name)
                and self.env.get(node.value.args[1].id) == "bytes4"):
            return f"(Z.of_N (be_val v_{node.value.args[1].id} 0))"
        raise TranslationError(f"{REL}: _process_received_data: integer expression not understood: {ast.dump(node)[:120]}")

    def test(self, node):
        if isinstance(node, ast.Compare) and len(node.ops) == 1:
            op = {ast.Lt: "<?", ast.Gt: ">?", ast.LtE: "<=?", ast.GtE: ">=?"}.get(type(node.ops[0]))
            if op:
                return f"({self.int_expr(node.left)} {op} {self.int_expr(node.comparators[0])})%Z"
            if isinstance(node.ops[0], ast.Eq):
                left, right = chain(node.left), chain(node.comparators[0])
                if left.endswith(".header.s_type") and self.env.get(left.split(".")[0]) == "block" and right == "HsmsSType.DATA_MESSAGE":
                    return f"(is_data v_{left.split('.')[0]})"
                if left == "self._connection_state.current" and right == "ConnectionState.CONNECTED_SELECTED":
                    return "selected"
        if is_call(node, "self._is_reply_to_open_transaction") and len(node.args) == 1 and isinstance(node.args[0], ast.Name) and self.env.get(node.args[0].id) == "block":
            return f"(is_reply v_{node.args[0].id})"
        if isinstance(node, ast.BoolOp) and isinstance(node.op, ast.And):
            return "(" + " && ".join(self.test(v) for v in node.values) + ")"
        raise TranslationError(f"{REL}: _process_received_data: condition not understood: {ast.dump(node)[:120]}")

    def is_log(self, st):
        return isinstance(st, ast.Expr) and isinstance(st.value, ast.Call) and chain(st.value.func).startswith("self._logger.")

    def block(self, stmts, at_end):
        """at_end: the term for falling off the end of the loop body (the next round)."""
        stmts = strip(stmts)
        if not stmts:
            return at_end
        st, rest = stmts[0], stmts[1:]
        if self.is_log(st):
            return self.block(rest, at_end)
        if isinstance(st, ast.Return) and st.value is None:
            return "(buf, tr, false)"
        if isinstance(st, ast.Continue):
            return at_end
        if isinstance(st, ast.Assign) and len(st.targets) == 1 and isinstance(st.targets[0], ast.Name):
            name, val = st.targets[0].id, st.value
            if is_call(val, "self._receive_buffer.peek") and len(val.args) == 1 and isinstance(val.args[0], ast.Constant) and type(val.args[0].value) is int:
                self.env[name] = "bytes4" if val.args[0].value == 4 else "bytes"
                return f"let v_{name} := firstn {val.args[0].value} buf in {self.block(rest, at_end)}"
            if is_call(val, "self._receive_buffer.pop") and len(val.args) == 1:
                n = self.int_expr(val.args[0])
                self.env[name] = "bytes"
                return f"let v_{name} := firstn (Z.to_nat {n}) buf in let buf := skipn (Z.to_nat {n}) buf in {self.block(rest, at_end)}"
            self.env[name] = "int"
            return f"let v_{name} := {self.int_expr(val)} in {self.block(rest, at_end)}"
        if isinstance(st, ast.If) and not st.orelse:
            body = strip(st.body)
            if not isinstance(body[-1], (ast.Return, ast.Continue)):
                raise TranslationError(f"{REL}: _process_received_data: an `if` that falls through")
            saved = dict(self.env)
            then = self.block(st.body, at_end)
            self.env = saved
            return f"if {self.test(st.test)} then {then} else {self.block(rest, at_end)}"
        if isinstance(st, ast.Try) and not st.orelse and not st.finalbody and len(st.handlers) == 1:
            body = strip(st.body)
            h = st.handlers[0]
            names = sorted(chain(e) for e in (h.type.elts if isinstance(h.type, ast.Tuple) else [h.type]))
            if names != ["ValueError", "struct.error"]:
                raise TranslationError(f"{REL}: _process_received_data: the decoder's exceptions caught are {names}")
            if not (len(body) == 1 and isinstance(body[0], ast.Assign) and isinstance(body[0].targets[0], ast.Name) and is_call(body[0].value, "HsmsBlock.decode")
                    and len(body[0].value.args) == 1 and isinstance(body[0].value.args[0], ast.Name) and self.env.get(body[0].value.args[0].id) == "bytes"):
                raise TranslationError(f"{REL}: _process_received_data: try body is not `x = HsmsBlock.decode(data)`")
            name = body[0].targets[0].id
            handler = self.block(h.body, at_end)          # log + continue: the frame is dropped
            handler = handler.replace("tr,", "tr ++ [RxDrop],", 1) if handler.startswith("(buf, tr,") else handler.replace("buf tr", "buf (tr ++ [RxDrop])", 1)
            self.env[name] = "block"
            return f"match decode v_{body[0].value.args[0].id} with Err _ => {handler} | Ok v_{name} => {self.block(rest, at_end)} end"
        if isinstance(st, ast.Expr) and is_call(st.value, "self._dispatch_block") and len(st.value.args) == 2 and chain(st.value.args[0]) == "self" \
                and isinstance(st.value.args[1], ast.Name) and self.env.get(st.value.args[1].id) == "block" \
                and [(k.arg, getattr(k.value, "value", None)) for k in st.value.keywords] == [("direct", True)]:
            cont = self.block(rest, at_end)
            return self.emit(cont, f"RxDirect v_{st.value.args[1].id}")
        if isinstance(st, ast.Expr) and is_call(st.value, "self._thread.queue_block") and len(st.value.args) == 2 and chain(st.value.args[0]) == "self" \
                and isinstance(st.value.args[1], ast.Name) and self.env.get(st.value.args[1].id) == "block" and not st.value.keywords:
            cont = self.block(rest, at_end)
            return self.emit(cont, f"RxQueue v_{st.value.args[1].id}")
        raise TranslationError(f"{REL}: _process_received_data: statement not understood: {ast.dump(st)[:140]}")

    @staticmethod
    def emit(cont, ev):
        if cont.startswith("(buf, tr,"):
            return cont.replace("tr,", f"tr ++ [{ev}],", 1)
        if cont.startswith("rx_loop f buf tr"):
            return cont.replace("buf tr", f"buf (tr ++ [{ev}])", 1)
        raise TranslationError(f"{REL}: _process_received_data: an effect in front of more statements")


def generate() -> str:
    check_bytequeue()
    cls = find_class(parse(REL), "HsmsProtocol", REL)
    fn = find_method(cls, "_process_received_data")
    body = strip(fn.body)
    if len(body) != 2 or not isinstance(body[1], ast.While) or body[1].orelse:
        raise TranslationError(f"{REL}: _process_received_data: a guard and one while loop expected")
    tr = Loop()
    guard = body[0]
    if not (isinstance(guard, ast.If) and not guard.orelse and len(strip(guard.body)) == 1 and isinstance(strip(guard.body)[0], ast.Return)):
        raise TranslationError(f"{REL}: _process_received_data: the guard in front of the loop")
    gtest = tr.test(guard.test)
    wtest = tr.test(body[1].test)
    loop_body = tr.block(body[1].body, "rx_loop f buf tr")
    used = set()
    for node in ast.walk(fn):
        if isinstance(node, ast.Attribute) and isinstance(node.value, ast.Name) and node.value.id == "self":
            used.add(node.attr)
    allowed = {"_receive_buffer", "_logger", "_connection_state", "_is_reply_to_open_transaction", "_dispatch_block", "_thread"}
    if used - allowed:
        raise TranslationError(f"{REL}: _process_received_data reads or writes other state of the protocol object: {sorted(used - allowed)}")
    return "\n".join([
        "(* GENERATED by harness/gen_rxloop.py from HsmsProtocol._process_received_data (and the ByteQueue methods it uses) - do not edit. *)",
        "From SG Require Import Base.Prelude Base.PyRt.", "Open Scope Z_scope.", "",
        "Section RxLoop.",
        "Variable blk : Type.                                 (* a decoded HSMS block *)",
        "Variable decode : list N -> res blk.                 (* HsmsBlock.decode: Err = ValueError / struct.error *)",
        "Variable is_data : blk -> bool.                      (* header.s_type == HsmsSType.DATA_MESSAGE *)",
        "Variable is_reply : blk -> bool.                     (* self._is_reply_to_open_transaction *)",
        "Variable selected : bool.                            (* the session is SELECTED *)",
        "",
        "Inductive rx_ev := RxDirect (b : blk) | RxQueue (b : blk) | RxDrop.",
        "",
        "(* the while loop: remaining buffer, what was done with the frames, out of fuel? *)",
        "Fixpoint rx_loop (fuel : nat) (buf : list N) (tr : list rx_ev) : list N * list rx_ev * bool :=",
        "  match fuel with",
        "  | O => (buf, tr, true)",
        "  | S f =>",
        f"    if {wtest} then",
        f"      {loop_body}",
        "    else (buf, tr, false)",
        "  end.",
        "",
        "Definition rx_process (buf : list N) : list N * list rx_ev * bool :=",
        f"  if {gtest} then (buf, [], false) else rx_loop (S (List.length buf)) buf [].",
        "End RxLoop.", ""])


if __name__ == "__main__":
    try:
        changed = write_if_changed(os.path.join(GEN_DIR, "RxLoop.v"), generate())
        print(f"gen_rxloop: {'updated' if changed else 'unchanged'}")
    except TranslationError as exc:
        print(f"TRANSLATION-ERROR gen_rxloop: {exc}")
        sys.exit(3)
