#!/usr/bin/env python3
"""Validate a seeded change and run the checks against it.

usage: seedcheck.py <prop> <k> [check ids...]   (reads /tmp/seed_<prop>/out/<k>/)
 1. in the scratch worktree: apply, full test-suite (must pass), demo (must fail); undo, demo (must pass)
 2. in /repo: apply, run the named checks (default: the property's own), undo
 3. store patch, demo, meta.json under /verif/seeded/<prop>-<k>/
"""
import json
import os
import shutil
import subprocess
import sys

prop, k = sys.argv[1], sys.argv[2]
checks = sys.argv[3:] or [prop]
REPO2 = os.environ.get("SEED_REPO", "/repo")
VERIF2 = os.environ.get("SEED_VERIF", "/verif")
wt = os.environ.get("SEED_WT", f"/tmp/seed_{prop}")
src = os.environ.get("SEED_SRC", f"{wt}/out/{k}")
dst = f"/verif/seeded/{prop}-{k}"
env = dict(os.environ, PYTHONPATH=wt)


def sh(cmd, cwd=None, env=None, timeout=1800):
    p = subprocess.run(cmd, shell=True, cwd=cwd, env=env, capture_output=True, text=True, timeout=timeout)
    return p.returncode, p.stdout + p.stderr


meta = {"property": prop, "change": k}
with open(f"{src}/note.txt") as fh:
    meta["needs"] = fh.read().strip()
rc, out = sh(f"git apply {src}/patch.diff", cwd=wt)
assert rc == 0, out
rc, out = sh("/venv/bin/python -m pytest -q -p no:cacheprovider -x 2>&1 | tail -3", cwd=wt, env=env)
meta["tests_with_change"] = out.strip().splitlines()[-1] if out.strip() else ""
rc_demo, out = sh(f"/venv/bin/python {src}/demo.py", cwd=wt, env=env, timeout=600)
meta["demo_with_change_exit"] = rc_demo
sh("git checkout -- .", cwd=wt)
rc_clean, out = sh(f"/venv/bin/python {src}/demo.py", cwd=wt, env=env, timeout=600)
meta["demo_without_change_exit"] = rc_clean
meta["confirmed"] = ("passed" in meta["tests_with_change"] and "failed" not in meta["tests_with_change"] and rc_demo != 0 and rc_clean == 0)
# run the checks against /repo with the change applied
rc, out = sh(f"git -C {REPO2} apply {src}/patch.diff")
assert rc == 0, out
results = {}
try:
    for c in checks:
        rc, out = sh(f"./check {c} --tier quick", cwd=VERIF2, env=dict(os.environ, SECSGEM_REPO=REPO2), timeout=1800)
        lines = [l for l in out.splitlines() if l.startswith("VIOLATION")]
        results[c] = {"exit": rc, "violations": lines[:6]}
finally:
    sh(f"git -C {REPO2} checkout -- .")
meta["checks"] = results
meta["detected_by"] = [c for c, r in results.items() if r["exit"] == 1]
os.makedirs(dst, exist_ok=True)
shutil.copy(f"{src}/patch.diff", dst)
shutil.copy(f"{src}/demo.py", dst)
meta["ran"] = f"scratch worktree {wt}: git apply, full pytest, demo.py; /repo: git apply, " + ", ".join(f"./check {c}" for c in checks) + ", git checkout"
with open(f"{dst}/meta.json", "w") as fh:
    json.dump(meta, fh, indent=1)
print(json.dumps({k2: meta[k2] for k2 in ("property", "change", "confirmed", "tests_with_change", "demo_with_change_exit", "demo_without_change_exit", "detected_by")}))
