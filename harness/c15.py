"""C15 — the SML text of any item parses back to the same item; the parser terminates."""
from __future__ import annotations

import c01
import c14
import coqlit as L
import common
import valrig

from secsgem.secs.item import Item
from secsgem.secs.item_l import ItemL


def text_lit(s):
    return L.nlist([ord(c) for c in s])


def build_item(rnd, depth):
    """a random item through the constructors of the Item API"""
    c = rnd.random()
    if depth > 0 and c < 0.3:
        return ItemL([build_item(rnd, depth - 1) for _ in range(rnd.choice([0, 1, 2, 3]))])
    name = rnd.choice([n for n in c14.CLS if n != "L"])
    kind = c14.VAR_OF.get(name, name)
    n = rnd.choice([0, 1, 1, 2, 3, 7])
    v = c01.scalar_value(kind, -1, rnd, n=n)
    if isinstance(v, bytearray):
        v = bytes(v)
    # (bools held by integer items are written as the numbers they stand for since D54)
    try:
        return c14.CLS[name](v)
    except Exception:  # noqa: BLE001
        return c14.CLS[name]([] if name not in ("A", "J") else "")


HUNG = []


def from_sml_guarded(text):
    """Item.from_sml under a deadline: C15 says it terminates on every text"""
    if HUNG:
        raise valrig.Unobservable("a previous input already did not terminate")
    try:
        return common.with_deadline(lambda: Item.from_sml(text), 8.0)
    except common.Wedged as exc:
        HUNG.append({"text": text, "blocked_in": str(exc)[-600:]})
        raise valrig.Unobservable("did not terminate") from exc


def case_item(item):
    try:
        sml = item.to_sml()
    except Exception:  # noqa: BLE001
        sml = None
    back = None
    if sml is not None:
        try:
            back = c14.snapshot(from_sml_guarded(sml))
        except valrig.Unobservable:
            raise
        except Exception:  # noqa: BLE001
            back = None
    return "(SItem %s %s %s)" % (c14.snapshot(item), L.opt(sml, text_lit), "None" if back is None else f"(Some {back})"), sml


def case_text(src, mutation):
    try:
        res = f"(Some {c14.snapshot(from_sml_guarded(src))})"
    except valrig.Unobservable:
        raise
    except RecursionError:
        raise
    except Exception:  # noqa: BLE001
        res = "None"
    return f"(SText {text_lit(src)} {mutation} {res})"


TOKENS = ["<", ">", "[", "]", "L", "U1", "A", "B", "BOOLEAN", "I8", "J", "F4", "X", "1", "0x10", "-5", "256", '"ab"', '"', "'c'", ".", "2", "l", "u2", "007", "0b1", "+3", "1_0"]


def gen_cases(rnd, tier):
    lits = []
    n = 500 if tier == "quick" else 5000
    for _ in range(n):
        try:
            item = build_item(rnd, rnd.choice([0, 0, 1, 2, 3]))
            lit, sml = case_item(item)
        except valrig.Unobservable:
            continue
        lits.append(("item", lit))
        if sml is None:
            continue
        c = rnd.random()
        try:
            if c < 0.2:
                # closing brackets only: a '>' inside a quoted run is text (to_sml never prints '"' inside a run)
                closes, quoted = [], False
                for i, ch in enumerate(sml):
                    if ch == '"':
                        quoted = not quoted
                    elif ch == ">" and not quoted:
                        closes.append(i)
                if closes:
                    i = rnd.choice(closes)
                    lits.append(("missing_close", case_text(sml[:i] + sml[i + 1 :], 1)))
            elif c < 0.3:
                i = sml.find("< ")
                if i >= 0:
                    j = i + 2
                    k = j
                    while k < len(sml) and sml[k] not in " >\n":
                        k += 1
                    lits.append(("unknown_type", case_text(sml[:j] + rnd.choice(["X9", "U3", "LIST", "STR"]) + sml[k:], 2)))
            elif c < 0.5 and isinstance(item, ItemL):
                i = sml.rfind(">")
                lits.append(("dot_close", case_text(sml[:i] + ". " + sml[i + 1 :], 3)))
            elif c < 0.7:
                # a complete item, and behind it: an item that is not closed / an unknown type / a literal left open / loose tokens
                tail = rnd.choice(["<", "< U2 1", "< FOO 1 >", "< L < XYZ > >", '"never closed < A', "'x", "abc", "5", "< U1 5 > <", "[", "]", ">"])
                lits.append(("trailing", case_text(sml + rnd.choice([" ", "\n", ""]) + tail, 4)))
        except valrig.Unobservable:
            pass
    # strings over every code point of both text classes
    allb = bytes(range(256))
    for it in (c14.CLS["A"](allb), c14.CLS["J"](allb), c14.CLS["A"]('say "hi" \\ \'x\''), c14.CLS["A"]('"'), c14.CLS["A"]('""x""'), c14.CLS["B"](allb),
               # a backslash where a run ends (end of the text, in front of a quote, in front of a control character), doubled, alone
               c14.CLS["A"]("\\"), c14.CLS["A"]("C:\\data\\"), c14.CLS["A"]('a\\"b'), c14.CLS["A"]("a\\\nb\\\\"), c14.CLS["A"]("\\\\"), c14.CLS["A"]("'\\'"),
               c14.CLS["U1"](True), c14.CLS["U1"]([1, True, 0]), c14.CLS["I2"](False), c14.CLS["U8"]([True, True]),
               c14.CLS["A"]("ends with blank "), c14.CLS["A"](" "), c14.CLS["A"]("a>"), c14.CLS["A"]("<"), c14.CLS["A"]("#x"), c14.CLS["A"]("tab\there")):
        try:
            lits.append(("item", case_item(it)[0]))
        except valrig.Unobservable:
            pass
    # type names are ASCII: letters that str.upper() maps onto one (dotless i, long s) do not make a known type
    for txt in ("< \u01311 5 >", "< \u0131 8 >", "< u\u017f 1 >", "< \u212a >"):
        try:
            lits.append(("unknown_type", case_text(txt, 2)))
        except valrig.Unobservable:
            pass
    # every token sequence of length <= 2 (quick: every third) / <= 3 (thorough): termination, rejection, agreement with the model
    import itertools
    depth = 3 if tier == "thorough" else 2
    k = 0
    for d in range(1, depth + 1):
        for toks in itertools.product(TOKENS, repeat=d):
            k += 1
            if tier != "thorough" and d == 2 and k % 3:
                continue
            try:
                lits.append(("tokens", case_text(" ".join(toks), 0)))
            except (valrig.Unobservable, RecursionError):
                pass
    # random token strings (termination / agreement with the model)
    for _ in range(300 if tier == "quick" else 3000):
        toks = [rnd.choice(TOKENS) for _ in range(rnd.randint(0, 40))]
        src = rnd.choice([" ", "\n", "  "]).join(toks)
        try:
            lits.append(("soup", case_text(src, 0)))
        except (valrig.Unobservable, RecursionError):
            pass
    return lits


HEADER = "From SG Require Import Base.Prelude Base.Kinds Model.Secs2 Model.Item Model.Sml Run.C15Run.\nOpen Scope N_scope.\n"


def evaluate(lits, prefix, shard=200):
    shards, maps = [], []
    idx = list(range(len(lits)))
    for s in range(0, len(idx), shard):
        part = idx[s : s + shard]
        maps.append(part)
        shards.append("Definition cs : list c15case := [\n" + ";\n".join(lits[i][1] for i in part) + "\n].\nEval vm_compute in run_c15 cs.\n")
    outs = common.coq_eval_shards(prefix, HEADER, shards)
    bad, skipped, checked, errors = [], 0, 0, []
    for part, (ok, text) in zip(maps, outs):
        parsed = common.parse_triples(text) if ok else None
        if parsed is None:
            errors.append(text[-800:])
            continue
        b, sk, ch = parsed
        skipped += sk
        checked += ch
        bad.extend((part[i], m, s) for i, m, s in b)
    return bad, {"skipped_unmodelled": skipped, "spec_checked": checked, "eval_errors": errors, "observed": len(lits)}


SPEC_CODES = {30: "an item could not be written as SML", 32: "the SML text of an item could not be parsed back", 34: "the parsed item differs from the item that was printed",
              35: "an item was returned for a text with a missing closing bracket / unknown type name"}
MODEL_CODES = {14: "implementation printed an item the model cannot print", 15: "implementation failed to print", 16: "SML text differs from the model",
               17: "implementation parsed a text the model rejects", 18: "implementation rejected a text the model parses", 20: "parsed item differs from the model"}


def run(tier, replay=None):
    import c16
    report = common.Report("C15", tier)
    if replay:
        import json
        print(json.dumps(json.load(open(replay)), indent=1)[:3000])
        return 0
    proof = common.prove(report, "C15", ["varconsts", "jis8", "itemconsts", "dataitems"], extra_targets=["Run/C15Run.vo"])
    ok, log = common.coq_make(["Run/C15Run.vo"])
    if not ok:
        report.violation({"kind": "broken-obligation", "obligation": "model Run/C15Run.vo does not build against the regenerated constants", "detail": log[-1500:], "also": proof.get("broken")}, False, tag="modelbuild")
        return report.finish()
    rnd = common.rng("c15")
    del HUNG[:]
    lits = gen_cases(rnd, tier)
    for h in HUNG[:1]:
        report.violation({"kind": "counterexample", "what": "Item.from_sml did not terminate within 8 s on this text", **h, "broken_obligation": proof.get("broken")}, True, tag="hang")
    bad, stats = evaluate(lits, "c15")
    c16.decide_lits(report, "C15", lits, bad, stats, proof, SPEC_CODES, MODEL_CODES)
    # "any nesting": a list 300 levels deep is printed by to_sml(); is it read back?
    deep, res = 7, {"depth": 300}
    for _ in range(300):
        deep = [deep]
    try:
        item = Item.from_value(deep)
        text = item.to_sml()
        res["to_sml"] = "ok"
        try:
            res["from_sml"] = "same item" if Item.from_sml(text).encode() == item.encode() else "another item"
        except RecursionError:
            res["from_sml"] = "RecursionError"
    except RecursionError:
        res["to_sml"] = "RecursionError"       # not printed: nothing to read back
    common.known_or_violation(report, "C15", "C15-deep-nesting", res.get("from_sml", "same item") == "same item", res,
                              "the SML text of a deeply nested list was not parsed back to the same item", "deep")
    import hashlib
    from collections import Counter
    cov = report.coverage
    cov["evaluations"] = len(lits)
    cov["distinct_nontrivial"] = len({hashlib.sha256(l[1].encode()).hexdigest() for l in lits if l[0] != "soup" or "Some" in l[1]})
    cov["rule"] = ("SItem = random items built through the Item constructors (all classes, 0-7 values, boundary numbers, text over all code points of A and J incl. quotes "
                   "and control characters, nesting to depth 3) -> to_sml -> Item.from_sml; SText = the same SML with one closing bracket removed / the type name replaced / "
                   "the last bracket replaced by '.', and random strings of up to 40 tokens of the SML alphabet (termination, agreement with the model); floats are "
                   "judged by the round trip only (printing/parsing of floats is not modelled)")
    cov["correspondence"] = {k: v for k, v in stats.items() if k != "eval_errors"}
    cov["distribution"] = dict(Counter(k for k, _ in lits))
    cov["samples"] = [l[1][:300] for l in lits[:: max(1, len(lits) // 5)][:5]]
    return report.finish()
