"""Translator entry point: see pyfuns.py (generate_hsms -> coq/Gen/PyHsmsHdr.v)."""
import pyfuns

if __name__ == "__main__":
    pyfuns.main("gen_pyhsmshdr", pyfuns.generate_hsms, "PyHsmsHdr.v")
