"""Python -> Coq literal printers for the model vocabulary (Model/Secs2.v)."""
from __future__ import annotations

import struct

NUMS = ["U1", "U2", "U4", "U8", "I1", "I2", "I4", "I8", "F4", "F8"]


def n(v: int) -> str:
    return str(int(v))


def z(v: int) -> str:
    return f"({int(v)})%Z"


def bool_(b) -> str:
    return "true" if b else "false"


def string(s: str) -> str:
    assert all(32 <= ord(c) < 127 for c in s), s
    return '"' + s.replace('"', '""') + '"%string'


def _runs(xs, fmt):
    """Compress a list into rep/cyc pieces: returns a Coq expression of type list."""
    if len(xs) <= 24:
        return "[" + ";".join(fmt(x) for x in xs) + "]"
    parts = []
    i = 0
    lit = []

    def flush():
        nonlocal lit
        if lit:
            parts.append("[" + ";".join(fmt(x) for x in lit) + "]")
            lit = []

    nlen = len(xs)
    while i < nlen:
        best = None
        for period in (1, 2, 3, 4, 5, 8):
            if i + 2 * period > nlen:
                break
            pat = xs[i : i + period]
            k = 1
            while xs[i + k * period : i + (k + 1) * period] == pat:
                k += 1
            if k * period >= 16 and (best is None or k * period > best[0] * best[1]):
                best = (k, period)
        if best:
            flush()
            k, period = best
            pat = "[" + ";".join(fmt(x) for x in xs[i : i + period]) + "]"
            parts.append(f"cyc {k} {pat}")
            i += k * period
        else:
            lit.append(xs[i])
            i += 1
    flush()
    return "(" + " ++ ".join(parts) + ")"


def nlist(bs) -> str:
    return _runs(list(bs), n)


def zlist(zs) -> str:
    return _runs(list(zs), z)


def blist(bs) -> str:
    return _runs([bool(b) for b in bs], bool_)


def dbits(d: float) -> int:
    return int.from_bytes(struct.pack(">d", d), "big")


def skind(k: str) -> str:
    return {"Binary": "KBin", "Boolean": "KBool", "String": "KStr", "JIS8": "KJis"}.get(k) or f"(KNum {k})"


def dkind(k: str) -> str:
    return "DArr" if k == "Array" else f"(DScal {skind(k)})"


def ty(t) -> str:
    tag = t[0]
    if tag == "rec":
        return "(TRec [" + ";".join(f"({string(nm)},{ty(ft)})" for nm, ft in t[1]) + "])"
    if tag == "arr":
        return f"(TArr {ty(t[1])} {z(t[2])})"
    if tag == "scal":
        return f"(TScal {skind(t[1])} {z(t[2])})"
    if tag == "dyn":
        return "(TDyn [" + ";".join(dkind(k) for k in t[1]) + f"] {z(t[2])})"
    if tag == "any":
        return "TAny"
    raise ValueError(tag)


class Typed:
    """variables.<K>(value): a typed wrapper handed to Dynamic.set."""

    def __init__(self, kind, value):
        self.kind = kind
        self.value = value


def plain(p) -> str:
    if p is None:
        return "PNone"
    if isinstance(p, Typed):
        return f"(PTyped {skind(p.kind)} {plain(p.value)})"
    if isinstance(p, bool):
        return f"(PBool {bool_(p)})"
    if isinstance(p, int):
        return f"(PInt {z(p)})"
    if isinstance(p, float):
        return f"(PFloat {dbits(p)})"
    if isinstance(p, str):
        return f"(PStr {nlist([ord(c) for c in p])})"
    if isinstance(p, bytes):
        return f"(PBytes {nlist(p)})"
    if isinstance(p, bytearray):
        return f"(PByteArray {nlist(p)})"
    if isinstance(p, (list, tuple)):
        xs = list(p)
        if len(xs) > 24 and all(type(x) is int for x in xs):
            return f"(PList (map PInt {zlist(xs)}))"
        if len(xs) > 24 and all(type(x) is bool for x in xs):
            return f"(PList (map PBool {blist(xs)}))"
        if len(xs) > 24 and all(type(x) is float for x in xs):
            return f"(PList (map PFloat {nlist([dbits(x) for x in xs])}))"
        if len(xs) > 24:
            return "(PList " + _runs([plain(x) for x in xs], lambda s: s) + ")"
        return "(PList [" + ";".join(plain(x) for x in xs) + "])"
    if isinstance(p, dict):
        return "(PDict [" + ";".join(f"({string(k)},{plain(v)})" for k, v in p.items()) + "])"
    raise ValueError(f"no plain literal for {type(p).__name__}")


def opt(x, f) -> str:
    return "None" if x is None else f"(Some {f(x)})"
