"""Translator: the stream/function catalogue -> coq/Gen/Catalogue.v (fail-closed).

Reads secsgem/secs/functions/_all.py (the list and its order), every sXXfYY.py (class constants by ast)
and secsgem/secs/functions.yaml (the documentation source the classes were generated from)."""
from __future__ import annotations

import ast
import os
import re
import sys

from astutil import GEN_DIR, REPO, TranslationError, class_assigns, coq_str, find_class, lit_int, parse, write_if_changed

FDIR = "secsgem/secs/functions"


def nlist(bs):
    return "[" + ";".join(str(b) for b in bs) + "]"


def flag(node, what):
    if isinstance(node, ast.Constant) and isinstance(node.value, bool):
        return node.value
    raise TranslationError(f"{what}: bool literal expected")


def read_classes():
    rel = f"{FDIR}/_all.py"
    mod = parse(rel)
    imports = {}
    lst = None
    for node in mod.body:
        if isinstance(node, ast.ImportFrom) and node.level == 1:
            for alias in node.names:
                imports[alias.asname or alias.name] = node.module
        elif isinstance(node, (ast.Assign, ast.AnnAssign)):
            tgt = node.targets[0] if isinstance(node, ast.Assign) else node.target
            if isinstance(tgt, ast.Name) and tgt.id == "secs_streams_functions":
                if not isinstance(node.value, ast.List):
                    raise TranslationError(f"{rel}: secs_streams_functions is not a list literal")
                lst = [e.id for e in node.value.elts if isinstance(e, ast.Name)]
                if len(lst) != len(node.value.elts):
                    raise TranslationError(f"{rel}: non-name element in secs_streams_functions")
    if lst is None:
        raise TranslationError(f"{rel}: secs_streams_functions not found")
    out = []
    for cname in lst:
        if cname not in imports:
            raise TranslationError(f"{rel}: {cname} is not imported from a module of the package")
        frel = f"{FDIR}/{imports[cname]}.py"
        cls = find_class(parse(frel), cname, frel)
        asg = class_assigns(cls)
        need = ["_stream", "_function", "_data_format", "_to_host", "_to_equipment", "_has_reply", "_is_reply_required", "_is_multi_block"]
        for key in need:
            if key not in asg:
                raise TranslationError(f"{frel}: {cname}.{key} missing")
        if any(isinstance(n, ast.FunctionDef) for n in cls.body):
            raise TranslationError(f"{frel}: {cname} defines methods; the model covers SecsStreamFunction only")
        fmt = asg["_data_format"]
        if isinstance(fmt, ast.Constant) and fmt.value is None:
            sfdl = None
        elif isinstance(fmt, ast.Constant) and isinstance(fmt.value, str):
            sfdl = fmt.value
        else:
            raise TranslationError(f"{frel}: {cname}._data_format is neither None nor a string literal")
        out.append(dict(name=cname, stream=lit_int(asg["_stream"], frel), function=lit_int(asg["_function"], frel), sfdl=sfdl,
                        to_host=flag(asg["_to_host"], frel), to_equipment=flag(asg["_to_equipment"], frel), has_reply=flag(asg["_has_reply"], frel),
                        reply_required=flag(asg["_is_reply_required"], frel), multi_block=flag(asg["_is_multi_block"], frel)))
    return out


def read_yaml():
    import yaml

    path = os.path.join(REPO, "secsgem/secs/functions.yaml")
    try:
        with open(path, encoding="utf-8") as fh:
            data = yaml.safe_load(fh)
    except Exception as exc:  # noqa: BLE001
        raise TranslationError(f"functions.yaml: {exc}") from exc
    out = []
    for key, val in data.items():
        m = re.fullmatch(r"S(\d+)F(\d+)", key)
        if not m:
            raise TranslationError(f"functions.yaml: key {key!r}")
        for k in ("to_host", "to_equipment", "reply", "reply_required", "multi_block"):
            if not isinstance(val.get(k), bool):
                raise TranslationError(f"functions.yaml: {key}.{k} is not a bool")
        sfdl = val.get("structure")
        if sfdl is not None and not isinstance(sfdl, str):
            raise TranslationError(f"functions.yaml: {key}.structure is not text")
        out.append(dict(name=key, stream=int(m.group(1)), function=int(m.group(2)), sfdl=sfdl, to_host=val["to_host"], to_equipment=val["to_equipment"],
                        has_reply=val["reply"], reply_required=val["reply_required"], multi_block=val["multi_block"]))
    return out


def entry(e):
    b = lambda x: "true" if x else "false"  # noqa: E731
    sfdl = "None" if e["sfdl"] is None else f"(Some {nlist([ord(c) for c in e['sfdl']])})"
    return ("{| f_name := %s; f_stream := %d; f_function := %d; f_sfdl := %s; f_to_host := %s; f_to_equipment := %s; f_has_reply := %s; "
            "f_reply_required := %s; f_multi_block := %s |}" % (coq_str(e["name"]), e["stream"], e["function"], sfdl, b(e["to_host"]), b(e["to_equipment"]),
                                                                b(e["has_reply"]), b(e["reply_required"]), b(e["multi_block"])))


def generate() -> str:
    classes = read_classes()
    yml = read_yaml()
    out = ["(* GENERATED by harness/gen_catalogue.py from secsgem/secs/functions/*.py and functions.yaml — do not edit. *)",
           "From SG Require Import Base.Prelude.", "Open Scope N_scope.", "",
           "Record fentry := { f_name : string; f_stream : N; f_function : N; f_sfdl : option (list N);",
           "                   f_to_host : bool; f_to_equipment : bool; f_has_reply : bool; f_reply_required : bool; f_multi_block : bool }.", "",
           "(* secs_streams_functions, in list order, with the class constants *)",
           "Definition catalogue : list fentry := [", ";\n".join("  " + entry(e) for e in classes), "].", "",
           "(* functions.yaml *)",
           "Definition yaml_catalogue : list fentry := [", ";\n".join("  " + entry(e) for e in yml), "].", ""]
    return "\n".join(out)


if __name__ == "__main__":
    try:
        changed = write_if_changed(os.path.join(GEN_DIR, "Catalogue.v"), generate())
        print(f"gen_catalogue: {'updated' if changed else 'unchanged'}")
    except TranslationError as exc:
        print(f"TRANSLATION-ERROR gen_catalogue: {exc}")
        sys.exit(3)
