"""GEM rig: a real GemEquipmentHandler / GemHostHandler on the in-memory connection of protorig; the harness plays
the peer: it selects, answers the primaries the handler sends (S1F13, S1F1, S6F11, S5F1 ...) from inside send_data,
feeds primaries and records every frame the handler sends."""
from __future__ import annotations

import threading
import time

import secsgem.gem
import secsgem.hsms
import secsgem.secs
from secsgem.hsms.header import HsmsHeader, HsmsSType
from secsgem.hsms.message import HsmsBlock, HsmsMessage

import protorig

threading.excepthook = lambda args: None  # library worker threads that die (e.g. a collection event sender) are observed by what they do not send


def data_frame(stream, function, system, body=b"", w=False, session=0):
    return HsmsMessage(HsmsHeader(system, session, stream, function, w, 0, HsmsSType.DATA_MESSAGE), body).blocks[0].encode()


def ctrl_frame(stype, system, function=0):
    return HsmsMessage(HsmsHeader(system, 0xFFFF, 0, function, False, 0, HsmsSType(stype)), b"").blocks[0].encode()


class GemRig:
    def __init__(self, host=False, init="ATTEMPT_ONLINE", sub="REMOTE", handler_cls=None, auto_establish=True, **kw):
        self.settings = protorig.RigSettings(connect_mode=secsgem.hsms.HsmsConnectMode.PASSIVE, device_id=0, **kw)
        self.settings.timeouts.t3 = 60
        self.settings.timeouts.t6 = 60
        if handler_cls is None:
            handler_cls = secsgem.gem.GemHostHandler if host else secsgem.gem.GemEquipmentHandler
        self.handler = handler_cls(self.settings) if host else handler_cls(self.settings, init, sub)
        self.rig = protorig.HsmsRig(proto=self.handler.protocol, settings=self.settings)
        self.conn = self.rig.conn
        self.sf = self.settings.streams_functions
        self.seen = 0                      # frames already reported
        self.frames = []                   # every decoded frame sent by the handler
        self.responders = {(1, 13): self._answer_s1f13, (6, 11): self._answer_ack(6, 12, b"\x21\x01\x00"), (5, 1): self._answer_ack(5, 2, b"\x21\x01\x00")}
        if not auto_establish:
            del self.responders[(1, 13)]
        self.pending = {}                  # (stream, function) -> system of a primary the harness has not answered
        self._partial = b""
        inner_send = self.conn.send_data

        def send_data(data):
            ok = inner_send(data)
            if ok:
                self._on_sent(bytes(data))
            return ok

        self.conn.send_data = send_data
        self._system = 0x7000

    # ---- peer side
    def _answer_s1f13(self, msg):
        body = self.sf.function(1, 14)({"COMMACK": 0, "MDLN": []}).encode()
        return data_frame(1, 14, msg.header.system, body)

    @staticmethod
    def _answer_ack(stream, function, body):
        return lambda msg: data_frame(stream, function, msg.header.system, body)

    def _on_sent(self, data):
        self._partial += data
        while len(self._partial) >= 4:
            n = int.from_bytes(self._partial[:4], "big") + 4
            if len(self._partial) < n:
                break
            block = HsmsBlock.decode(self._partial[:n])
            self._partial = self._partial[n:]
            self.frames.append(block)
            h = block.header
            # S5F1 is sent without W-bit although set_alarm()/clear_alarm() wait for S5F2: the peer answers it anyway (as GemHostHandler does)
            if h.s_type.value == 0 and (h.require_response or (h.stream, h.function) == (5, 1)):
                key = (h.stream, h.function)
                responder = self.responders.get(key)
                reply = responder(block) if responder else None
                if reply is not None:
                    self.conn.on_data({"source": self.conn, "data": reply})
                else:
                    self.pending[key] = h.system

    def next_system(self):
        self._system += 1
        return self._system

    # ---- driving
    def settle(self, timeout=10.0):
        deadline = time.monotonic() + timeout
        while time.monotonic() < deadline:
            if not self.rig.settle(timeout):
                return False
            busy = [t for t in threading.enumerate() if ("_ce_sender" in t.name or "_verif_worker" in t.name) and not getattr(t, "parked", False)]
            if not busy and self.rig._quiet():
                return True
            time.sleep(0.0003)
        return False

    def establish(self):
        """enable, connect, select, and let the S1F13/S1F14 exchange complete"""
        self.handler.enable()
        self.conn.connect()
        self.rig.settle()
        self.conn.feed(ctrl_frame(1, self.next_system()))
        if not self.settle():
            raise RuntimeError("gem rig did not settle while establishing communication")

    def send_primary(self, stream, function, body=b"", w=True):
        system = self.next_system()
        self.conn.feed(data_frame(stream, function, system, body, w))
        if not self.settle():
            raise RuntimeError("gem rig did not settle")
        return system

    def new_frames(self):
        out = self.frames[self.seen:]
        self.seen = len(self.frames)
        return [b for b in out if b.header.s_type.value == 0]

    def resolve(self, key, reply_frame=None):
        """answer (or, with None, abandon as a T3 expiry does) a primary the handler is waiting on"""
        system = self.pending.pop(key)
        if reply_frame is None:
            q = self.handler.protocol._response_queues.get(system)
            if q is not None:
                q.put_nowait(None)
        else:
            self.conn.on_data({"source": self.conn, "data": reply_frame(system)})

    def call(self, fn, wait_for=None):
        """run an application-side call on its own thread; returns (thread, holder). If wait_for=(s,f) is given, returns
        as soon as the call has finished or the handler has sent that primary and waits for its reply."""
        holder = {}

        def work():
            try:
                holder["result"] = fn()
            except Exception as exc:  # noqa: BLE001
                holder["raised"] = exc

        th = threading.Thread(target=work, daemon=True, name="_verif_call")
        th.start()
        deadline = time.monotonic() + 10
        while th.is_alive() and time.monotonic() < deadline:
            if wait_for is not None and wait_for in self.pending:
                break
            time.sleep(0.0003)
        return th, holder

    def stop(self):
        for key in list(self.pending):
            try:
                self.resolve(key)
            except Exception:  # noqa: BLE001
                pass
        self.rig.stop()
