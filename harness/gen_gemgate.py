"""Translator: GemHandler._on_message_received (the communication-state gate in front of every received message) -> coq/Gen/GemGate.v (fail-closed).

The method is translated statement by statement into a function that lists what the handler does with a message:

    gem_on_message (cur : nat) (stream function commack : Z) (sent_ok accepted : bool) : list gem_act

cur = the communication state; commack = what the application's on_commack_requested() returns; sent_ok = send_response() did not return False;
accepted = _is_communication_accepted(message).  Statements understood:

    message = data["message"]                                             (binding)
    if <cond>: ... elif <cond>: ... else: ...                             conditions over the state (`== X`, `in (X, Y)`), stream / function numbers,
                                                                          `commack == 0`, `sent is not False`, `self._is_communication_accepted(message)`, and/or/not
    commack = self.on_commack_requested()                                 (binding of the oracle)
    if self._is_host: sent = self.send_response(S1F14 with COMMACK commack, message.header.system)
    else:             sent = self.send_response(S1F14 with COMMACK commack, ...)          -> GSendS1F14 commack (both roles alike)
    self._communication_state.<transition>()                              -> GTransition "<transition>"
    self._handle_stream_function(message)                                 -> GHandle
    pass

Proofs/GemGateProofs.v proves that Model/GemComm.v treats the three kinds of inbound messages exactly as this function says, in every state.
"""
from __future__ import annotations

import ast
import os
import sys

from astutil import GEN_DIR, TranslationError, coq_str, find_class, find_method, parse, write_if_changed

REL = "secsgem/gem/handler.py"


def chain(node):
    out = []
    while isinstance(node, ast.Attribute):
        out.append(node.attr)
        node = node.value
    if isinstance(node, ast.Name):
        out.append(node.id)
    return ".".join(reversed(out))


def is_call(node, name):
    return isinstance(node, ast.Call) and chain(node.func) == name


class Gate:
    def __init__(self):
        self.bound = {}          # python local -> coq term

    def state(self, node):
        c = chain(node)
        if not c.startswith("CommunicationState."):
            raise TranslationError(f"{REL}: _on_message_received: state expected: {ast.dump(node)[:80]}")
        return "communication_" + c.split(".", 1)[1]

    def cond(self, node):
        if isinstance(node, ast.BoolOp):
            return "(" + (" && " if isinstance(node.op, ast.And) else " || ").join(self.cond(v) for v in node.values) + ")"
        if isinstance(node, ast.UnaryOp) and isinstance(node.op, ast.Not):
            return f"(negb {self.cond(node.operand)})"
        if is_call(node, "self._is_communication_accepted") and len(node.args) == 1 and chain(node.args[0]) == "message":
            return "accepted"
        if isinstance(node, ast.Compare) and len(node.ops) == 1:
            left, op, right = node.left, node.ops[0], node.comparators[0]
            if chain(left) == "self._communication_state.current":
                if isinstance(op, ast.Eq):
                    return f"(cur =? {self.state(right)})%nat"
                if isinstance(op, ast.In) and isinstance(right, ast.Tuple):
                    return "(" + " || ".join(f"(cur =? {self.state(e)})%nat" for e in right.elts) + ")"
            if chain(left) in ("message.header.stream", "message.header.function") and isinstance(op, ast.Eq) and isinstance(right, ast.Constant) and type(right.value) is int:
                return f"({chain(left).split('.')[-1]} =? {right.value})%Z"
            if isinstance(left, ast.Name) and left.id in self.bound and self.bound[left.id] == "commack" and isinstance(op, ast.Eq) \
                    and isinstance(right, ast.Constant) and type(right.value) is int:
                return f"(commack =? {right.value})%Z"
            if isinstance(left, ast.Name) and self.bound.get(left.id) == "sent_ok" and isinstance(op, ast.IsNot) and isinstance(right, ast.Constant) and right.value is False:
                return "sent_ok"
        raise TranslationError(f"{REL}: _on_message_received: condition not understood: {ast.dump(node)[:140]}")

    def send_s1f14(self, st):
        """sent = self.send_response(self.stream_function(1, 14)({"COMMACK": commack, ...}), message.header.system) -> local name"""
        if not (isinstance(st, ast.Assign) and len(st.targets) == 1 and isinstance(st.targets[0], ast.Name) and is_call(st.value, "self.send_response") and len(st.value.args) == 2):
            return None
        fn, system = st.value.args
        if chain(system) != "message.header.system":
            return None
        if not (isinstance(fn, ast.Call) and is_call(fn.func, "self.stream_function") and [getattr(a, "value", None) for a in fn.func.args] == [1, 14]
                and len(fn.args) == 1 and isinstance(fn.args[0], ast.Dict)):
            return None
        d = {k.value: v for k, v in zip(fn.args[0].keys, fn.args[0].values) if isinstance(k, ast.Constant)}
        if not (isinstance(d.get("COMMACK"), ast.Name) and self.bound.get(d["COMMACK"].id) == "commack"):
            return None
        return st.targets[0].id

    def block(self, stmts):
        """-> coq term of type list gem_act"""
        parts = []
        for st in stmts:
            if isinstance(st, ast.Expr) and isinstance(st.value, ast.Constant):
                continue
            if isinstance(st, ast.Pass):
                continue
            if isinstance(st, ast.Assign) and len(st.targets) == 1 and isinstance(st.targets[0], ast.Name):
                if isinstance(st.value, ast.Subscript) and chain(st.value.value) == "data" and isinstance(st.value.slice, ast.Constant) and st.value.slice.value == "message" \
                        and st.targets[0].id == "message":
                    continue
                if is_call(st.value, "self.on_commack_requested") and not st.value.args:
                    self.bound[st.targets[0].id] = "commack"
                    continue
                name = self.send_s1f14(st)
                if name:
                    self.bound[name] = "sent_ok"
                    parts.append("[GSendS1F14 commack]")
                    continue
            if isinstance(st, ast.If) and chain(st.test) == "self._is_host":
                # the two roles answer alike (the equipment adds MDLN / SOFTREV): one send
                a = [self.send_s1f14(s) for s in st.body]
                b = [self.send_s1f14(s) for s in st.orelse]
                if len(a) == 1 and len(b) == 1 and a[0] and a[0] == b[0]:
                    self.bound[a[0]] = "sent_ok"
                    parts.append("[GSendS1F14 commack]")
                    continue
                raise TranslationError(f"{REL}: _on_message_received: host and equipment do not answer alike")
            if isinstance(st, ast.If):
                saved = dict(self.bound)
                then = self.block(st.body)
                self.bound = dict(saved)
                other = self.block(st.orelse) if st.orelse else "[]"
                self.bound = saved
                parts.append(f"(if {self.cond(st.test)} then {then} else {other})")
                continue
            if isinstance(st, ast.Expr) and isinstance(st.value, ast.Call) and not st.value.args and not st.value.keywords:
                c = chain(st.value.func)
                if c.startswith("self._communication_state.") and c.count(".") == 2:
                    parts.append(f"[GTransition {coq_str(c.split('.')[2])}]")
                    continue
            if isinstance(st, ast.Expr) and is_call(st.value, "self._handle_stream_function") and len(st.value.args) == 1 and chain(st.value.args[0]) == "message":
                parts.append("[GHandle]")
                continue
            raise TranslationError(f"{REL}: _on_message_received: statement not understood: {ast.dump(st)[:140]}")
        if not parts:
            return "[]"
        return "(" + " ++ ".join(parts) + ")"


def generate() -> str:
    fn = find_method(find_class(parse(REL), "GemHandler", REL), "_on_message_received")
    if [a.arg for a in fn.args.args] != ["self", "data"]:
        raise TranslationError(f"{REL}: _on_message_received signature")
    body = Gate().block(fn.body)
    return "\n".join(["(* GENERATED by harness/gen_gemgate.py from GemHandler._on_message_received - do not edit. *)",
                      "From SG Require Import Base.Prelude Gen.Machines.", "Open Scope Z_scope.", "",
                      "Inductive gem_act := GSendS1F14 (commack : Z) | GTransition (name : string) | GHandle.", "",
                      "(* cur: the communication state; commack: what on_commack_requested() returns; sent_ok: send_response() did not return False;",
                      "   accepted: _is_communication_accepted(message) *)",
                      "Definition gem_on_message (cur : nat) (stream function commack : Z) (sent_ok accepted : bool) : list gem_act :=",
                      f"  {body}.", ""])


if __name__ == "__main__":
    try:
        changed = write_if_changed(os.path.join(GEN_DIR, "GemGate.v"), generate())
        print(f"gen_gemgate: {'updated' if changed else 'unchanged'}")
    except TranslationError as exc:
        print(f"TRANSLATION-ERROR gen_gemgate: {exc}")
        sys.exit(3)
