"""C14 — the Item API agrees with SEMI E5 and with the variables API on every value."""
from __future__ import annotations

import math

import c01
import c02
import coqlit as L
import common
import valrig

from secsgem.secs import variables as V
from secsgem.secs.item import Item
from secsgem.secs.item_b import ItemB
from secsgem.secs.item_boolean import ItemBOOLEAN
from secsgem.secs.item_l import ItemL
from secsgem.secs import item_number as IN
from secsgem.secs.item_str import ItemA, ItemJ

CLS = {"L": ItemL, "B": ItemB, "BOOLEAN": ItemBOOLEAN, "A": ItemA, "J": ItemJ}
for _k in c01.NUM_RANGE:
    CLS[_k] = getattr(IN, "Item" + _k)
CLS["F4"] = IN.ItemF4
CLS["F8"] = IN.ItemF8
COQ_CLS = {"L": "CL", "B": "CB", "BOOLEAN": "CBool", "A": "CA", "J": "CJ"}
VAR_OF = {"B": "Binary", "BOOLEAN": "Boolean", "A": "String", "J": "JIS8"}


def coq_cls(name):
    return COQ_CLS.get(name) or f"(CNum {name})"


def snapshot(item):
    if isinstance(item, ItemL):
        return "(VArr " + L._runs([snapshot(x) for x in item._value], lambda s: s) + ")"
    if isinstance(item, ItemB):
        return f"(VBin {L.nlist(item._value)})"
    if isinstance(item, ItemBOOLEAN):
        return f"(VBool {L.blist(item._value)})"
    if isinstance(item, ItemJ):
        return f"(VText true {L.nlist([ord(c) for c in item._value])})"
    if isinstance(item, ItemA):
        return f"(VText false {L.nlist([ord(c) for c in item._value])})"
    if isinstance(item, IN.ItemNumber):
        kind = item._sml_type
        if kind in ("F4", "F8"):
            if any(not isinstance(x, float) or math.isnan(x) for x in item._value):
                raise valrig.Unobservable("nan / non float")
            return f"(VFlt {kind} {L.nlist([L.dbits(x) for x in item._value])})"
        return f"(VNum {kind} {L.zlist([int(x) for x in item._value])})"
    raise valrig.Unobservable(type(item).__name__)


def normal_form(p):
    """What .value is expected to give back for input p (scalars for one-element lists of non-list items)."""
    return p


def holds(item, p):
    """python-level 'the item holds that value'."""
    val = item.value
    if isinstance(p, list) and not isinstance(item, ItemL):
        if isinstance(item, ItemB):
            want = b"".join(bytes([int(x)]) if isinstance(x, int) else x if isinstance(x, bytes) else x.encode("utf-8") for x in p)
            return val == want
        if len(p) == 1:
            return val == p[0]
        return val == p
    if isinstance(item, ItemB) and isinstance(p, int):
        return val == bytes([p])
    if isinstance(item, (ItemA, ItemJ)) and isinstance(p, bytes):
        return True
    if isinstance(item, ItemB) and isinstance(p, str):
        return True
    if isinstance(p, dict):
        return True
    return val == p


def var_encode(item):
    """The same typed value through the variables API (None when there is no counterpart)."""
    try:
        if isinstance(item, ItemL):
            return None
        name = VAR_OF.get(item._sml_type, item._sml_type)
        var = getattr(V, name)(item.value if not isinstance(item, (ItemB,)) else bytes(item._value))
        return var.encode()
    except Exception:  # noqa: BLE001
        return None


def observe(cls, p):
    out = {"ok": False, "val": "VNone", "value": None, "holds": False, "enc": None, "dec": None, "var_enc": None, "err": None}
    try:
        item = Item.from_value(p) if cls is None else CLS[cls](p)
    except Exception as exc:  # noqa: BLE001
        out["err"] = f"construct: {type(exc).__name__}: {exc}"[:200]
        return out
    out["ok"] = True
    out["val"] = snapshot(item)
    out["value"] = item.value
    out["holds"] = bool(holds(item, p))
    try:
        enc = item.encode()
    except Exception as exc:  # noqa: BLE001
        out["err"] = f"encode: {type(exc).__name__}: {exc}"[:200]
        return out
    out["enc"] = enc
    out["var_enc"] = var_encode(item)
    try:
        back = Item.decode(enc)
        out["dec"] = (snapshot(back), back.encode())
    except valrig.Unobservable:
        raise
    except Exception as exc:  # noqa: BLE001
        out["err"] = f"decode: {type(exc).__name__}: {exc}"[:200]
    return out


def value_plain(v, numeric=False):
    """item.value as a coq plain literal; a bool held by an integer item is the integer it equals."""
    if numeric:
        if isinstance(v, list):
            return L.plain([int(x) if isinstance(x, bool) else x for x in v])
        return L.plain(int(v) if isinstance(v, bool) else v)
    return L.plain(v)


def literal(cls, p, o):
    def dec(d):
        return f"({d[0]}, {L.nlist(d[1])})"

    return ("{| i_cls := %s; i_in := %s; i_ok := %s; i_val := %s; i_value := %s; i_holds := %s; i_enc := %s; i_dec := %s; i_var_enc := %s |}" % (
        "None" if cls is None else f"(Some {coq_cls(cls)})", L.plain(p), L.bool_(o["ok"]), o["val"],
        value_plain(o["value"], numeric=o["val"].startswith("(VNum")) if o["ok"] else "PNone", L.bool_(o["holds"]), L.opt(o["enc"], L.nlist), L.opt(o["dec"], dec), L.opt(o["var_enc"], L.nlist)))


def rand_plain(rnd, depth):
    c = rnd.random()
    if depth > 0 and c < 0.3:
        return [rand_plain(rnd, depth - 1) for _ in range(rnd.choice([0, 1, 2, 3]))]
    c = rnd.random()
    if c < 0.35:
        m = rnd.random()
        if m < 0.5:
            return rnd.choice([0, 1, 255, 256, 65535, 65536, 2**32 - 1, 2**32, 2**64 - 1, 2**64, -1, -128, -129, -32768, -32769, -(2**31), -(2**31) - 1, -(2**63), -(2**63) - 1, 127, 128])
        return rnd.randint(-(2**63), 2**64 - 1) >> rnd.randint(0, 63)
    if c < 0.5:
        return c01.scalar_elem("F8", rnd) if rnd.random() < 0.5 else c01.scalar_elem("F4", rnd)
    if c < 0.65:
        return c01.text_value("String", rnd.choice([0, 1, 3, 10]), rnd)
    if c < 0.8:
        return bytes(rnd.randint(0, 255) for _ in range(rnd.choice([0, 1, 2, 9])))
    if c < 0.9:
        return rnd.choice([True, False])
    return rnd.choice([None, {"a": 1}, bytearray(b"x")])


def gen_cases(rnd, tier):
    cases = []
    base_lens = c01.LENS_Q + c01.LENS_BOUNDARY + [1023, 1024, 4097]
    width = {"U2": 2, "I2": 2, "U4": 4, "I4": 4, "F4": 4, "U8": 8, "I8": 8, "F8": 8}
    for name in CLS:
        if name == "L":
            # (lists of 65535 items are left out: the model re-measures the remaining input per item, quadratic under vm_compute;
            #  the length-byte boundary is the same header code as for the scalar classes, which do go up to 65536)
            for n in [0, 1, 2, 255, 256, 1000]:
                cases.append(("L", [5] * n))
                cases.append(("L", ["x"] * n))
            cases.append(("L", {"a": 1, "b": [2.5, "z"]}))
            continue
        var_kind = VAR_OF.get(name, name)
        # thorough: element counts whose BYTE length crosses the two-to-three length-byte boundary (65535/65536)
        w = width.get(name, 1)
        big = ([65536 // w - 1, 65536 // w, 65536 // w + 1] if w > 1 else c01.LENS_BIG) if tier == "thorough" else []
        for n in base_lens + big:
            for _ in range(2 if n <= 17 else 1):
                v = c01.scalar_value(var_kind, -1, rnd, n=n)
                if isinstance(v, bytearray):
                    v = bytes(v)
                cases.append((name, v))
        if name in c01.NUM_RANGE:
            for v in c01.int_boundaries(name, rnd):
                cases.append((name, v))
                cases.append((name, [v]))
        if name == "F4":
            cases.extend(("F4", v) for v in c01.F4_SPECIAL)
        if name == "F8":
            cases.extend(("F8", v) for v in c01.F8_SPECIAL)
    if tier == "quick":
        for name, kind in (("B", "Binary"), ("A", "String"), ("U1", "U1"), ("BOOLEAN", "Boolean")):
            for n in (65535, 65536):
                v = c01.scalar_value(kind, -1, rnd, n=n, form="list" if kind in ("U1", "Boolean") else ("bytes" if kind == "Binary" else "str"))
                cases.append((name, v))
    cases.append(("B", [1, 2, 3]))
    cases.append(("B", [0, 255, b"ab", "c"]))
    cases.append(("B", list(range(256))))
    cases.append(("A", bytes(range(256)).decode("latin-1")))
    cases.append(("A", 'say "hi"'))
    cases.append(("J", bytes(range(256))))
    for v in c01.F4_SPECIAL + c01.F8_SPECIAL + [0.1, 1 / 3, 16777217.0, 1e-50]:
        cases.append((None, v))
    for v in [0, 1, 255, 256, 65535, 65536, 2**32 - 1, 2**32, 2**64 - 1, 2**64, -1, -128, -129, -32768, -32769, -(2**31), -(2**31) - 1, -(2**63), -(2**63) - 1, 127, 128, True, False]:
        cases.append((None, v))
    for _ in range(900 if tier == "quick" else 8000):
        cases.append((None, rand_plain(rnd, rnd.choice([0, 1, 2, 3, 5]))))
    return cases


def gen_decode_cases(rnd, tier):
    out = []
    for t, bs in c02.gen_cases(rnd, tier):
        out.append(bs)
    # JIS-8 items
    out.append(bytes([0x45, 3, 0x41, 0x5C, 0xB1]))
    out.append(bytes([0x46, 0, 2, 0x7E, 0xDF]))
    return out


HEADER = "From SG Require Import Base.Prelude Base.Kinds Model.Secs2 Model.Item Run.C01Run Run.C14Run.\nOpen Scope N_scope.\n"


def _shards(lits, idx, defname, typ, runner, shard=400):
    shards, maps = [], []
    for s in range(0, len(idx), shard):
        part = idx[s : s + shard]
        maps.append(part)
        shards.append(f"Definition cs : list {typ} := [\n" + ";\n".join(lits[i] for i in part) + f"\n].\nEval vm_compute in {runner} cs.\n")
    return shards, maps


def _collect(maps, outs):
    bad, skipped, checked, errors = [], 0, 0, []
    for part, (ok, text) in zip(maps, outs):
        parsed = common.parse_triples(text) if ok else None
        if parsed is None:
            errors.append(text[-800:])
            continue
        b, sk, ch = parsed
        skipped += sk
        checked += ch
        bad.extend((part[i], m, s) for i, m, s in b)
    return bad, skipped, checked, errors


def evaluate(cases, prefix):
    obs = []
    for cls, p in cases:
        if valrig.has_nan(p):
            obs.append(None)
            continue
        try:
            o = observe(cls, p)
            obs.append((o, literal(cls, p, o)))
        except (valrig.Unobservable, ValueError) as exc:
            if isinstance(exc, valrig.Unobservable) or "no plain literal" in str(exc):
                obs.append(None)
            else:
                raise
    idx = [i for i, x in enumerate(obs) if x is not None]
    shards, maps = _shards({i: obs[i][1] for i in idx}, idx, "cs", "iobs", "run_icases")
    outs = common.coq_eval_shards(prefix, HEADER, shards)
    bad, sk, ch, errors = _collect(maps, outs)
    return obs, bad, {"skipped_unmodelled": sk, "spec_checked": ch, "eval_errors": errors, "observed": len(idx)}


def evaluate_decode(blobs, prefix):
    obs = []
    for bs in blobs:
        o = {"ok": False, "val": "VNone", "reenc": None, "err": None}
        try:
            item = Item.decode(bytes(bs))
            o["val"] = snapshot(item)
            o["ok"] = True
            try:
                o["reenc"] = item.encode()
            except Exception as exc:  # noqa: BLE001
                o["err"] = f"encode: {exc}"[:200]
        except valrig.Unobservable:
            obs.append(None)
            continue
        except Exception as exc:  # noqa: BLE001
            o["err"] = f"decode: {type(exc).__name__}: {exc}"[:200]
        lit = "{| id_bytes := %s; id_ok := %s; id_val := %s; id_reenc := %s |}" % (L.nlist(bs), L.bool_(o["ok"]), o["val"], L.opt(o["reenc"], L.nlist))
        obs.append((o, lit))
    idx = [i for i, x in enumerate(obs) if x is not None]
    shards, maps = _shards({i: obs[i][1] for i in idx}, idx, "cs", "idobs", "run_idcases")
    outs = common.coq_eval_shards(prefix, HEADER, shards)
    bad, sk, ch, errors = _collect(maps, outs)
    return obs, bad, {"skipped_unmodelled": sk, "spec_checked": ch, "eval_errors": errors, "observed": len(idx)}


SPEC_CODES = {
    30: "item could not be encoded", 31: "bytes differ from the SEMI E5 encoding of the item", 32: "Item.decode rejected a valid encoding",
    34: "Item.decode returned a different value", 35: "from_value refused an integer that a standard type holds",
    36: "the item does not hold the value it was built from", 37: "from_value did not choose the narrowest standard integer type",
    39: "the two item APIs produce different bytes for the same typed value",
}


def descriptor_sweep():
    """Both item APIs for the same typed value: every data item of the YAML catalogue (DataItemDescriptor.generate, the Item API) against
    the data item class of the same name (the variables API), with plain values of each kind: same bytes, or both refuse."""
    import secsgem.secs.data_items as di
    from secsgem.secs import data_item as DI
    descriptors = DI.DataItemDescriptors.from_yaml(DI.default_yaml_path)
    samples = [0, 1, 5, 200, 300, 70000, -3, True, "x", "abc", b"\x01", b"abc", [1, 2], [True, False], 1.5]
    diffs, tried = [], 0
    for name in sorted(n for n in vars(di) if n.isupper()):
        cls = getattr(di, name)
        if not (isinstance(cls, type) and issubclass(cls, di.DataItemBase)) or getattr(cls, "__type__", None) is None:
            continue
        try:
            des = descriptors[name]
        except KeyError:
            continue
        if isinstance(des.type, list) and len(des.type) != 1:
            continue            # several allowed types: which one a PLAIN value gets is each API's choice, the value is not a typed one
        for value in samples:
            def via(fn):
                try:
                    return fn().encode().hex()
                except (ValueError, TypeError, IndexError, UnicodeError, OverflowError):
                    return "refused"
                except Exception as exc:  # noqa: BLE001
                    return "raised " + type(exc).__name__
            a, b = via(lambda: des.generate(value)), via(lambda: cls(value))
            tried += 1
            # the comparison is about values both APIs take: what only one of them refuses is a matter of its input forms
            if a != b and "refused" not in (a, b) and not a.startswith("raised") and not b.startswith("raised") and len(diffs) < 6:
                diffs.append({"data_item": name, "value": repr(value), "item_api_bytes": a[:40], "variables_api_bytes": b[:40]})
    return tried, diffs


def run(tier, replay=None):
    report = common.Report("C14", tier)
    if replay:
        return do_replay(replay)
    proof = common.prove(report, "C14", ["varconsts", "jis8", "itemconsts", "pyvarhdr", "pyitemhdr"], extra_targets=["Run/C14Run.vo"])
    ok, log = common.coq_make(["Run/C14Run.vo"])
    if not ok:
        report.violation({"kind": "broken-obligation", "obligation": "model Run/C14Run.vo does not build against the regenerated constants",
                          "detail": log[-1500:], "also": proof.get("broken")}, False, tag="modelbuild")
        return report.finish()
    rnd = common.rng("c14")
    cases = gen_cases(rnd, tier)
    obs, bad, stats = evaluate(cases, "c14")
    blobs = gen_decode_cases(rnd, tier)
    dobs, dbad, dstats = evaluate_decode(blobs, "c14d")
    # merge the two streams for the common decision logic
    all_cases = [(("item", c[0]), c[1], b"") for c in cases] + [(("decode",), b, b"") for b in blobs]
    all_obs = [None if o is None else ({"val": o[0]["val"], **{k: v for k, v in o[0].items() if k != "val"}}, o[1]) for o in obs]
    all_obs += [None if o is None else ({"val": o[0]["val"], **{k: v for k, v in o[0].items() if k != "val"}}, o[1]) for o in dobs]
    all_bad = list(bad) + [(i + len(cases), m, s) for i, m, s in dbad]
    merged = {"eval_errors": stats["eval_errors"] + dstats["eval_errors"], "observed": stats["observed"] + dstats["observed"],
              "skipped_unmodelled": stats["skipped_unmodelled"] + dstats["skipped_unmodelled"], "spec_checked": stats["spec_checked"] + dstats["spec_checked"]}
    c01.decide(report, "C14", all_cases, all_obs, all_bad, merged, proof, SPEC_CODES, c01.MODEL_CODES)
    tried, diffs = descriptor_sweep()
    report.coverage["descriptor_sweep"] = {"pairs_tried": tried, "differences": diffs}
    if diffs:
        report.violation({"kind": "counterexample", "what": "the two item APIs produce different bytes for the same value of the same data item", "differences": diffs}, True, tag="descriptor")
    # Item.decode of any valid encoding: <U1 7> inside 500 one-element lists
    raw, res = common.nested_bytes(500), {"depth": 500, "bytes": 1003}
    try:
        from secsgem.secs.item import Item as _Item
        res["decode"] = "ok" if _Item.decode(raw).encode() == raw else "wrong result"
    except RecursionError:
        res["decode"] = "RecursionError"
    common.known_or_violation(report, "C14", "C14-deep-nesting", res["decode"] == "ok", res, "Item.decode of a valid encoding (deeply nested lists) failed", "deep")
    import hashlib
    distinct = set()
    kinds = {}
    for (cls, p), o in zip(cases, obs):
        if o is None:
            continue
        kinds[cls or "from_value"] = kinds.get(cls or "from_value", 0) + 1
        if o[0]["ok"] and o[0]["enc"] is not None and len(o[0]["enc"]) > 2:
            distinct.add(hashlib.sha256(o[1].encode()).hexdigest())
    for o in dobs:
        if o is not None and o[0]["ok"]:
            distinct.add(hashlib.sha256(o[1].encode()).hexdigest())
    cov = report.coverage
    cov["evaluations"] = merged["observed"]
    cov["distinct_nontrivial"] = len(distinct)
    cov["rule"] = ("constructor cases = (Item class or from_value, plain python value): every class x element counts {0,1,2,3,5,17,254..257"
                   + (", and the counts whose byte length is 65536-w, 65536, 65536+w" if tier == "thorough" else "") + "} x input forms (scalars, lists, bytes, str), numeric boundaries, all byte values, random nested "
                   "plain values for from_value; decode cases = C02's re-laid-out valid encodings (+ JIS-8 items, + corrupted streams compared with the model only); "
                   "each constructor case also encodes the same typed value through the variables API; non-trivial = accepted and longer than an empty item")
    cov["correspondence"] = {"constructor_stream": {k: v for k, v in stats.items() if k != "eval_errors"}, "decode_stream": {k: v for k, v in dstats.items() if k != "eval_errors"}}
    cov["distribution"] = {"constructor": kinds, "decode_blobs": len(blobs)}
    cov["samples"] = [repr(c)[:200] for c in cases[:: max(1, len(cases) // 6)][:6]] + [b.hex()[:80] for b in blobs[:: max(1, len(blobs) // 3)][:3]]
    return report.finish()


def do_replay(path):
    import json

    with open(path, encoding="utf-8") as handle:
        doc = json.load(handle)
    if "case" not in doc:
        print(json.dumps(doc, indent=1))
        return 0
    kind, p, _ = c01.case_eval(doc["case"])
    if kind[0] == "decode":
        obs, bad, _ = evaluate_decode([p], "c14_replay")
    else:
        obs, bad, _ = evaluate([(kind[1], p)], "c14_replay")
    print("case:", doc["case"])
    print("implementation:", obs[0][0] if obs[0] else None)
    print("codes (index, model, spec):", bad)
    return 1 if bad else 0
