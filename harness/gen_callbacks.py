"""Translator: the stream/function callbacks the shipped GEM handlers register -> coq/Gen/Callbacks.v (fail-closed).

For the equipment and the host handler the class hierarchy is read from equipmenthandler.py / hosthandler.py, every
method named _on_sXXfYY of those classes is collected (the most derived definition wins, as in Python) and its ways of
finishing are classified from the return statements: a response built with self.stream_function(S, F)(...), None, or
None after the method has sent a response itself with self.send_response(...).
"""
from __future__ import annotations

import ast
import os
import re
import sys

from astutil import GEN_DIR, REPO, TranslationError, find_class, lit_int, parse, write_if_changed

GEM = "secsgem/gem"
ROLES = {"equipment": ("secsgem/gem/equipmenthandler.py", "GemEquipmentHandler"), "host": ("secsgem/gem/hosthandler.py", "GemHostHandler")}
BASE_FILES = {"GemHandler": "secsgem/gem/handler.py", "SecsHandler": "secsgem/secs/handler.py", "Capability": "secsgem/gem/capability.py"}


def class_file(name):
    if name in BASE_FILES:
        return BASE_FILES[name]
    snake = re.sub(r"(?<!^)(?=[A-Z])", "_", name).lower()
    path = f"{GEM}/{snake}.py"
    if not os.path.exists(os.path.join(REPO, path)):
        raise TranslationError(f"cannot locate the module of class {name} ({path})")
    return path


def base_names(cls):
    out = []
    for b in cls.bases:
        if isinstance(b, ast.Name):
            out.append(b.id)
        elif isinstance(b, ast.Attribute):
            out.append(b.attr)
        else:
            raise TranslationError(f"class {cls.name}: base expression")
    return out


def linearize(name, rel, seen):
    """classes in method-lookup order (depth first, left to right, first occurrence kept: enough for a diamond-free search of methods
    that are defined once per name; checked below)"""
    if name in ("object", "Generic", "ABC"):
        return []
    cls = find_class(parse(rel), name, rel)
    order = [(name, rel, cls)]
    for b in base_names(cls):
        if b in seen or b in ("object", "ABC", "Generic") or b.startswith("typing"):
            continue
        seen.add(b)
        order.extend(linearize(b, class_file(b), seen))
    return order


def stream_function_call(node):
    """self.stream_function(S, F)(...) -> (S, F) or None"""
    if isinstance(node, ast.Call) and isinstance(node.func, ast.Call):
        f = node.func
        if isinstance(f.func, ast.Attribute) and f.func.attr == "stream_function" and isinstance(f.func.value, ast.Name) and f.func.value.id == "self" and len(f.args) == 2:
            return lit_int(f.args[0], "stream_function"), lit_int(f.args[1], "stream_function")
    return None


class Finder(ast.NodeVisitor):
    def __init__(self):
        self.returns = []
        self.assigns = {}
        self.sends = []

    def visit_FunctionDef(self, node):  # nested defs are not part of this callback's control flow
        pass

    visit_AsyncFunctionDef = visit_FunctionDef
    visit_Lambda = visit_FunctionDef

    def visit_Return(self, node):
        self.returns.append(node)

    def visit_Assign(self, node):
        if len(node.targets) == 1 and isinstance(node.targets[0], ast.Name):
            self.assigns.setdefault(node.targets[0].id, []).append(node.value)
        self.generic_visit(node)

    def visit_Call(self, node):
        if isinstance(node.func, ast.Attribute) and node.func.attr == "send_response" and isinstance(node.func.value, ast.Name) and node.func.value.id == "self":
            self.sends.append(node)
        self.generic_visit(node)


def falls_off(body):
    last = body[-1]
    if isinstance(last, (ast.Return, ast.Raise)):
        return False
    if isinstance(last, ast.If):
        return (not last.orelse) or falls_off(last.body) or falls_off(last.orelse)
    return True


HARMLESS = {"getattr", "get", "trigger_collection_events", "info", "warning", "exception", "debug", "error"}


def guarded_after_send(fn):
    """after the top-level statement that calls self.send_response, every call that could fail sits inside try/except Exception"""
    idx = None
    for i, st in enumerate(fn.body):
        if any(isinstance(n, ast.Call) and isinstance(n.func, ast.Attribute) and n.func.attr == "send_response" for n in ast.walk(st)):
            idx = i
    if idx is None:
        return False

    def risky(node, protected):
        if isinstance(node, ast.Try):
            broad = any(h.type is None or (isinstance(h.type, ast.Name) and h.type.id in ("Exception", "BaseException")) for h in node.handlers)
            return (any(risky(x, protected or broad) for x in node.body) or any(risky(x, protected) for h in node.handlers for x in h.body)
                    or any(risky(x, protected) for x in node.orelse + node.finalbody))
        if isinstance(node, ast.Call) and not protected:
            name = node.func.attr if isinstance(node.func, ast.Attribute) else (node.func.id if isinstance(node.func, ast.Name) else "?")
            if name not in HARMLESS:
                return True
        return any(risky(c, protected) for c in ast.iter_child_nodes(node))

    return not any(risky(st, False) for st in fn.body[idx + 1:])


def classify(fn, where):
    finder = Finder()
    for st in fn.body:
        finder.visit(st)
    kinds = set()
    sent = None
    sent_kind = "KSentNone"
    if finder.sends:
        sfs = {stream_function_call(c.args[0]) for c in finder.sends if c.args}
        if len(sfs) != 1 or None in sfs:
            raise TranslationError(f"{where}: send_response with an unrecognised function")
        sent = sfs.pop()
        if not guarded_after_send(fn):
            sent_kind = "KSentMayRaise"
    for ret in finder.returns:
        v = ret.value
        if v is None or (isinstance(v, ast.Constant) and v.value is None):
            kinds.add((sent_kind,) + sent if sent else ("KNone",))
            continue
        sf = stream_function_call(v)
        if sf is None and isinstance(v, ast.Name):
            vals = finder.assigns.get(v.id, [])
            sfs = {stream_function_call(x) for x in vals}
            if len(sfs) == 1 and None not in sfs:
                sf = sfs.pop()
        if sf is None:
            raise TranslationError(f"{where}: return value is not a self.stream_function(S, F)(...) response")
        kinds.add(("KReply",) + sf)
    if falls_off(fn.body):
        kinds.add((sent_kind,) + sent if sent else ("KNone",))
    return sorted(kinds)


def role_table(role):
    rel, name = ROLES[role]
    order = linearize(name, rel, {name})
    table = {}
    for cname, crel, cls in order:
        for node in cls.body:
            if isinstance(node, ast.FunctionDef):
                m = re.fullmatch(r"_on_s(\d\d)f(\d\d)", node.name)
                if m:
                    key = (int(m.group(1)), int(m.group(2)))
                    if key in table:
                        raise TranslationError(f"{role}: {node.name} is defined in {cname} and in {table[key][0]} (method resolution not modelled)")
                    table[key] = (cname, classify(node, f"{crel}:{node.name}"))
    return table


def generate() -> str:
    out = ["(* GENERATED by harness/gen_callbacks.py from the GEM handler classes — do not edit. *)",
           "From SG Require Import Base.Prelude.", "Open Scope Z_scope.", "",
           "Inductive cbkind := KReply (s f : Z) | KNone | KSentNone (s f : Z) | KSentMayRaise (s f : Z).", ""]
    for role in ROLES:
        table = role_table(role)
        rows = []
        for (s, f), (cname, kinds) in sorted(table.items()):
            ks = "; ".join("KNone" if k[0] == "KNone" else f"{k[0]} {k[1]} {k[2]}" for k in kinds)
            rows.append(f"  (({s}, {f}), [{ks}])  (* {cname} *)")
        body = ";\n".join(r.split("  (*")[0] for r in rows)
        out.append(f"Definition {role}_callbacks : list ((Z * Z) * list cbkind) := [\n{body}].")
        out.append("(* " + "; ".join(f"S{s}F{f}: {c}" for (s, f), (c, _k) in sorted(table.items())) + " *)")
        out.append("")
    return "\n".join(out)


if __name__ == "__main__":
    try:
        changed = write_if_changed(os.path.join(GEN_DIR, "Callbacks.v"), generate())
        print(f"gen_callbacks: {'updated' if changed else 'unchanged'}")
    except TranslationError as exc:
        print(f"TRANSLATION-ERROR gen_callbacks: {exc}")
        sys.exit(3)
