"""C18 — the state-machine engine keeps one consistent current state under any transitions."""
from __future__ import annotations

import coqlit as L
import common

import secsgem.common
from secsgem.common.state_machine import State, StateMachine, Transition


class GenericMachine(StateMachine):
    """A machine built from a description: parents[i] = parent index or None; trans = [(name, [sources], dest)];
    handlers = {("enter"|"leave", state) | ("called", name): [requested transition names]}."""

    def __init__(self, parents, trans, handlers, init, one_shot=()):
        super().__init__()
        self.elog = []
        self.one_shot = set(one_shot)
        self.spent = set()
        self.states = []
        chain = set()
        s = init
        while s is not None:
            chain.add(s)
            s = parents[s]
        for i, p in enumerate(parents):
            self.states.append(State(i, f"S{i}", parent=self.states[p] if p is not None else None, initial=i in chain))
        self._current_state = self.states[init]
        self._transitions = [Transition(n, [self.states[x] for x in srcs], self.states[d]) for n, srcs, d in trans]
        # three callbacks per event, in registration order: record, make the requests, record again
        for i, st in enumerate(self.states):
            for kind, ev in (("enter", st.events.enter), ("leave", st.events.leave)):
                ev.register(lambda _d, k=(kind, i): self.elog.append(k))
                ev.register(lambda _d, k=(kind, i): self._requests(k))
                ev.register(lambda _d, k=("post_" + kind, i): self.elog.append(k))
        for tr in self._transitions:
            tr.events.called.register(lambda _d, k=("called", tr.name): self.elog.append(k))
            tr.events.called.register(lambda _d, k=("called", tr.name): self._requests(k))
            tr.events.called.register(lambda _d, k=("post_called", tr.name): self.elog.append(k))
        self.handlers = handlers

    def _requests(self, key):
        if key in self.one_shot:
            if key in self.spent:
                return
            self.spent.add(key)
        for name in self.handlers.get(key, []):
            self._perform_transition(name)


def evt_lit(key):
    kind, x = key
    if kind == "enter":
        return f"(Enter {x})"
    if kind == "leave":
        return f"(Leave {x})"
    if kind == "post_enter":
        return f"(PostEnter {x})"
    if kind == "post_leave":
        return f"(PostLeave {x})"
    if kind == "post_called":
        return f"(PostCalled {L.string(x)})"
    return f"(Called {L.string(x)})"


def nlist(xs):
    return "[" + ";".join(str(x) for x in xs) + "]"


def machine_lit(parents, trans):
    ps = "[" + ";".join("None" if p is None else f"(Some {p})" for p in parents) + "]"
    ts = "[" + ";".join(f"({L.string(n)}, {nlist(srcs)}, {d})" for n, srcs, d in trans) + "]"
    return "{| m_parent := %s; m_trans := %s |}" % (ps, ts)


def case_lit(parents, trans, handlers, init, reqs, obs, one_shot=()):
    hs = "[" + ";".join(f"({evt_lit(k)}, [{';'.join(L.string(n) for n in v)}])" for k, v in handlers.items()) + "]"
    os_ = "[" + ";".join(evt_lit(k) for k in one_shot) + "]"
    return ("{| k_machine := %s; k_handlers := %s; k_one_shot := %s; k_init := %d; k_requests := [%s]; k_cur := %d; k_active := [%s]; k_log := [%s]; k_raised := [%s] |}"
            % (machine_lit(parents, trans), hs, os_, init, ";".join(L.string(r) for r in reqs), obs["cur"], ";".join(L.bool_(b) for b in obs["active"]),
               ";".join(evt_lit(e) for e in obs["log"]), ";".join(L.bool_(b) for b in obs["raised"])))


def observe(parents, trans, handlers, init, reqs, one_shot=()):
    m = GenericMachine(parents, trans, handlers, init, one_shot)
    raised = []
    for r in reqs:
        try:
            m._perform_transition(r)
            raised.append(False)
        except RecursionError:
            return None
        except Exception:  # noqa: BLE001
            raised.append(True)
    return {"cur": m.states.index(m.current_state), "active": [st.active for st in m.states], "log": list(m.elog), "raised": raised}


def rand_machine(rnd, flat=False):
    n = rnd.randint(1, 8)
    parents = [None]
    for i in range(1, n):
        parents.append(None if flat or rnd.random() < 0.35 else rnd.randrange(i))
    # depth <= 3
    names = [f"t{i}" for i in range(rnd.randint(1, 8))]
    trans = []
    for _ in range(rnd.randint(1, 12)):
        name = rnd.choice(names)
        srcs = rnd.sample(range(n), rnd.randint(1, min(n, 3)))
        trans.append((name, srcs, rnd.randrange(n)))
    return parents, trans, names


def rand_handlers(rnd, parents, names, allow_leave):
    handlers = {}
    for _ in range(rnd.choice([0, 0, 1, 1, 2, 3])):
        c = rnd.random()
        if c < 0.6:
            key = ("enter", rnd.randrange(len(parents)))
        elif c < 0.8 and allow_leave:
            key = ("leave", rnd.randrange(len(parents)))
        else:
            key = ("called", rnd.choice(names))
        handlers[key] = [rnd.choice(names + ["nosuch"]) if rnd.random() < 0.9 else rnd.choice(names) for _ in range(rnd.choice([1, 1, 2]))]
    return handlers


def shipped_machines():
    """(name, parents, trans, handler-table, init) of the three shipped machines, read off the live objects."""
    import secsgem.gem.communication_state_machine as comm
    import secsgem.gem.control_state_machine as ctrl
    import secsgem.hsms.connection_state_machine as conn
    out = []

    def describe(machine):
        states = []
        for tr in machine._transitions:
            for st in [*tr.sources, tr.destination]:
                while st is not None:
                    if st not in states:
                        states.append(st)
                    st = st.parent
        # parents first
        states.sort(key=lambda s: (0 if s.parent is None else 1))
        idx = {id(s): i for i, s in enumerate(states)}
        parents = [None if s.parent is None else idx[id(s.parent)] for s in states]
        trans = [(t.name, [idx[id(s)] for s in t.sources], idx[id(t.destination)]) for t in machine._transitions]
        return states, parents, trans, idx[id(machine.current_state)]

    out.append(("connection", *describe(conn.ConnectionStateMachine())[1:], {}))
    st, parents, trans, init = describe(ctrl.ControlStateMachine())
    name_idx = {s.name: i for i, s in enumerate(st)}
    for ics in ("EQUIPMENT_OFFLINE", "ATTEMPT_ONLINE", "HOST_OFFLINE", "ONLINE"):
        for ocs in ("LOCAL", "REMOTE"):
            h = {("enter", name_idx["CONTROL"]): ["initial_online" if ics == "ONLINE" else "initial_offline"],
                 ("enter", name_idx["OFFLINE"]): [{"EQUIPMENT_OFFLINE": "initial_equipment_offline", "ATTEMPT_ONLINE": "initial_attempt_online", "HOST_OFFLINE": "initial_host_offline"}.get(ics, "initial_equipment_offline")] if ics != "ONLINE" else [],
                 ("enter", name_idx["ONLINE"]): ["initial_online_remote" if ocs == "REMOTE" else "initial_online_local"]}
            h = {k: v for k, v in h.items() if v}
            out.append((f"control/{ics}/{ocs}", parents, trans, init, h))
    settings = secsgem.common.Settings if False else None
    return out


def gen_cases(rnd, tier):
    cases = []
    nrand = 500 if tier == "quick" else 5000
    for k in range(nrand):
        flat = rnd.random() < 0.3
        parents, trans, names = rand_machine(rnd, flat=flat)
        mode = rnd.random()
        if mode < 0.5:
            handlers = {}
        else:
            handlers = rand_handlers(rnd, parents, names, allow_leave=rnd.random() < 0.3)
        init = rnd.randrange(len(parents))
        reqs = [rnd.choice(names + ["nosuch"]) if rnd.random() < 0.95 else "nosuch" for _ in range(rnd.randint(1, 20))]
        one_shot = [k for k in handlers if rnd.random() < 0.5]
        cases.append((parents, trans, handlers, init, reqs, one_shot))
    # handler cycles that come back to a state whose event is still being dispatched (one-shot handlers end them)
    for _ in range(40 if tier == "quick" else 300):
        n = rnd.randint(2, 4)
        parents = [None] * n
        trans = [(f"g{i}", [i], (i + 1) % n) for i in range(n)]
        handlers = {("enter", (i + 1) % n): [f"g{(i + 1) % n}"] for i in range(n)}
        keys = list(handlers)
        one_shot = keys if rnd.random() < 0.5 else keys[: rnd.randint(1, len(keys))]
        if rnd.random() < 0.5:
            handlers[("called", "g0")] = ["g1"] if n > 1 else []
            one_shot = [*one_shot, ("called", "g0")]
        cases.append((parents, trans, handlers, 0, ["g0"] + [rnd.choice([t[0] for t in trans]) for _ in range(rnd.randint(0, 4))], one_shot))
    # deep chains: a grandchild moving to its uncle, cousin, root
    parents = [None, 0, 1, 0, 3, None]
    trans = [("a", [2], 3), ("b", [3], 2), ("c", [2], 4), ("d", [4], 5), ("e", [5], 2), ("f", [2, 4], 0), ("g", [0], 4)]
    for reqs in (["a", "b", "c", "d", "e"], ["c", "f", "g", "d", "e", "a"], ["f", "g", "d"]):
        cases.append((parents, trans, {}, 2, reqs, []))
    # the shipped machines with their own handler programs
    for name, parents, trans, init, h in shipped_machines():
        tnames = sorted({t[0] for t in trans})
        for _ in range(6 if tier == "quick" else 40):
            reqs = (["start"] if name.startswith("control") else []) + [rnd.choice(tnames) for _ in range(rnd.randint(1, 15))]
            cases.append((parents, trans, h, init, reqs, []))
    return cases


HEADER = "From SG Require Import Base.Prelude Model.StateMachine Run.C18Run.\nOpen Scope nat_scope.\n"


def evaluate(cases, prefix, shard=250):
    lits = []
    for c in cases:
        parents, trans, handlers, init, reqs, one_shot = c
        obs = observe(parents, trans, handlers, init, reqs, one_shot)
        lits.append(None if obs is None else case_lit(parents, trans, handlers, init, reqs, obs, one_shot))
    idx = [i for i, x in enumerate(lits) if x is not None]
    shards, maps = [], []
    for s in range(0, len(idx), shard):
        part = idx[s : s + shard]
        maps.append(part)
        shards.append("Definition cs : list c18case := [\n" + ";\n".join(lits[i] for i in part) + "\n].\nEval vm_compute in run_c18 cs.\n")
    outs = common.coq_eval_shards(prefix, HEADER, shards)
    bad, skipped, checked, errors = [], 0, 0, []
    for part, (ok, text) in zip(maps, outs):
        parsed = common.parse_triples(text) if ok else None
        if parsed is None:
            errors.append(text[-800:])
            continue
        b, sk, ch = parsed
        skipped += sk
        checked += ch
        bad.extend((part[i], m, s) for i, m, s in b)
    return lits, bad, {"skipped_unmodelled": skipped, "spec_checked": checked, "eval_errors": errors, "observed": len(idx)}


# ------------------------------------------------------------------ known findings, replayed on the real engine
def witness_nested_hier():
    """enter handler of a child state requests a transition out of the parent (Props/C18.v: cex_machine)"""
    parents = [None, None, 1]
    trans = [("go", [0], 2), ("back", [2], 0)]
    obs = observe(parents, trans, {("enter", 2): ["back"]}, 0, ["go"])
    chain_active = [True, False, False]
    return obs is not None and obs["raised"] == [False] and obs["cur"] == 0 and obs["active"] != chain_active, obs


def witness_nested_from_leave():
    """the leave handler of the state that is being left requests another transition that is allowed from that state
    (Props/C18.v: leave_machine)"""
    obs = observe([None, None, None], [("ab", [0], 1), ("ac", [0], 2)], {("leave", 0): ["ac"]}, 0, ["ab"], one_shot=[("leave", 0)])
    leaves = 0 if obs is None else sum(1 for e in obs["log"] if e == ("leave", 0))
    return obs is not None and obs["raised"] == [False] and obs["cur"] == 1 and obs["active"] == [False, True, True] and leaves == 2, obs


def witness_concurrent():
    """two threads request transitions allowed from the same state; the first is parked inside its leave
    callback (a public extension point) until the second has passed the source check"""
    import threading

    m = GenericMachine([None, None, None], [("x", [0], 1), ("y", [0], 2)], {}, 0)
    first_in = threading.Event()
    release = threading.Event()
    count = {"n": 0}

    def on_leave(_d):
        count["n"] += 1
        if count["n"] == 1:
            first_in.set()
            release.wait(5)

    m.states[0].events.leave.register(on_leave)
    res = {}

    def worker(name):
        try:
            m._perform_transition(name)
            res[name] = "ok"
        except Exception as exc:  # noqa: BLE001
            res[name] = type(exc).__name__

    t1 = threading.Thread(target=worker, args=("x",), daemon=True)
    t1.start()
    first_in.wait(5)
    t2 = threading.Thread(target=worker, args=("y",), daemon=True)
    t2.start()
    t2.join(1.0)           # (with the engine's lock the second request waits here until the first is through)
    release.set()
    t1.join(5)
    leaves = sum(1 for e in m.elog if e == ("leave", 0))
    active = [st.active for st in m.states]
    broken = res.get("x") == "ok" and res.get("y") == "ok" and (leaves == 2 or sum(active) != 1)
    return broken, {"results": res, "leave_0_fired": leaves, "active": active, "current": m.states.index(m.current_state)}


KNOWN = {
    "C18-nested-hierarchical": (witness_nested_hier, "in a hierarchical machine a transition requested from an enter handler out of the parent leaves that parent active although it is neither current nor an ancestor (machine: 0, 1>2; go 0->2 whose enter handler requests back 2->0)"),
    "C18-nested-from-leave": (witness_nested_from_leave, "a transition requested from the LEAVE handler of the state being left is performed inside the outer transition, which then goes on: leave fires twice, two states report active (flat machine A, B, C; ab: A->B, ac: A->C; A's leave handler requests ac; request ab)"),
    "C18-concurrent": (witness_concurrent, "_perform_transition is not atomic: two threads both allowed from state 0 run to completion, state 0 fires leave twice / two states report active"),
}

SPEC_CODES = {34: "a callback registered on an event was not called exactly once per firing", 30: "allowed/disallowed verdict differs from the transition table", 31: "an allowed request did not reach exactly its destination",
              32: "the states reporting active are not exactly the current state and its ancestors",
              33: "leave/enter/called events are not those of the states exited/entered, once each"}
MODEL_CODES = {10: "current state differs from the model", 11: "active flags differ from the model", 12: "event log differs from the model", 13: "raised/returned verdicts differ from the model"}


def run(tier, replay=None):
    import c16
    report = common.Report("C18", tier)
    if replay:
        import json
        print(json.dumps(json.load(open(replay)), indent=1)[:3000])
        return 0
    proof = common.prove(report, "C18", ["statemachines", "engine"], extra_targets=["Run/C18Run.vo"])
    ok, log = common.coq_make(["Run/C18Run.vo"])
    if not ok:
        report.violation({"kind": "broken-obligation", "obligation": "model Run/C18Run.vo does not build", "detail": log[-1500:], "also": proof.get("broken")}, False, tag="modelbuild")
        return report.finish()
    rnd = common.rng("c18")
    cases = gen_cases(rnd, tier)
    lits, bad, stats = evaluate(cases, "c18")
    lit_pairs = [("machine", l if l is not None else "") for l in lits]
    c16.decide_lits(report, "C18", lit_pairs, bad, stats, proof, SPEC_CODES, MODEL_CODES)
    listed = {e["id"]: e for e in common.known_findings("C18")}
    replayed = []
    for fid, (fn, text) in KNOWN.items():
        entry = listed.get(fid)
        if entry is None:
            continue
        still, detail = fn()
        replayed.append({"id": fid, "status": entry.get("status"), "still_fails": still, "observed": detail})
        if entry.get("status") == "open" and still:
            report.known(f"{fid}: {text}")
        elif entry.get("status") == "fixed" and still:
            report.violation({"kind": "counterexample", "what": f"fixed finding {fid} fails again: {text}", "observed": detail}, True, tag="regress")
    import hashlib
    cov = report.coverage
    cov["known_findings_replayed"] = replayed
    cov["evaluations"] = stats["observed"]
    cov["distinct_nontrivial"] = len({hashlib.sha256(l.encode()).hexdigest() for l in lits if l and "Called" in l})
    cov["rule"] = ("cases = (machine definition, handler programs, initial state, request sequence) run on the real engine through a generic StateMachine "
                   "subclass: random forests of 1-8 states (30% flat), 1-12 transitions over 1-8 names with 1-3 sources, request sequences of 1-20 names incl. "
                   "unknown ones; half of the machines have handler programs (nested requests from enter/leave/called callbacks); fixed deep chains (grandchild to "
                   "uncle/cousin/root); the three shipped machines with their own handler programs in all 8 configurations; non-trivial = at least one transition performed")
    cov["correspondence"] = {k: v for k, v in stats.items() if k != "eval_errors"}
    cov["samples"] = [l[:400] for l in lits[:: max(1, len(lits) // 5)][:5] if l]
    return report.finish()
