"""C12 — event-report configuration stays consistent and transactional under any history."""
from __future__ import annotations

import coqlit as L
import common
import gemrig

import secsgem.gem
from secsgem.secs.variables import U4

VIDS = [10, "sx", 20]
CEIDS = [1, 2, "ce"]
RPTIDS = [1, 2, "r"]


def idl(x):
    return f"(IdS {L.string(x)})" if isinstance(x, str) else f"(IdN {L.z(int(x))})"


def idsl(xs):
    return "[" + ";".join(idl(x) for x in xs) + "]"


def plain(x):
    return x.get() if hasattr(x, "get") else x


class Equip:
    def __init__(self):
        self.rig = gemrig.GemRig(init="ONLINE", sub="REMOTE")
        h = self.rig.handler
        h.status_variables.update({10: secsgem.gem.StatusVariable(10, "sv10", "u", U4, False), "sx": secsgem.gem.StatusVariable("sx", "svx", "u", U4, False)})
        h.data_values.update({20: secsgem.gem.DataValue(20, "dv20", U4, False)})
        h.collection_events.update({"ce": secsgem.gem.CollectionEvent("ce", "custom", [])})
        self.values = {10: 0, "sx": 0, 20: 0}
        self.rig.establish()
        self.rig.new_frames()

    def set_value(self, vid, value):
        h = self.rig.handler
        (h.status_variables if vid in h.status_variables else h.data_values)[vid].value = value
        self.values[vid] = value

    def state(self):
        h = self.rig.handler
        reports = [(plain(k), list(plain(v.vars))) for k, v in h.registered_reports.items()]
        links = [(plain(k), list(v.reports), bool(v.enabled)) for k, v in h.registered_collection_events.items()]
        return reports, links

    def request(self, s, f, value):
        rig = self.rig
        rig.send_primary(s, f, rig.sf.function(s, f)(value).encode())
        return [b for b in rig.new_frames()]

    def decode(self, b):
        return self.rig.sf.decode(gemrig.HsmsMessage(b.header, b.data))

    def report_lit(self, b):
        v = self.decode(b).get()
        return f"(RReport {idl(v['CEID'])} [" + ";".join(f"({idl(r['RPTID'])}, {L.zlist([int(x) for x in r['V']])})" for r in v["RPT"]) + "])"

    def do(self, op):
        kind = op[0]
        if kind == "define":
            frames = self.request(2, 33, {"DATAID": 1, "DATA": [{"RPTID": r, "VID": list(vs)} for r, vs in op[1]]})
            out = self.ack(frames, (2, 34))
            lit = "(RDefine [" + ";".join(f"({idl(r)}, {idsl(vs)})" for r, vs in op[1]) + "])"
        elif kind == "link":
            frames = self.request(2, 35, {"DATAID": 1, "DATA": [{"CEID": c, "RPTID": list(rs)} for c, rs in op[1]]})
            out = self.ack(frames, (2, 36))
            lit = "(RLink [" + ";".join(f"({idl(c)}, {idsl(rs)})" for c, rs in op[1]) + "])"
        elif kind == "enable":
            frames = self.request(2, 37, {"CEED": bool(op[1]), "CEID": list(op[2])})
            out = self.ack(frames, (2, 38))
            lit = f"(REnable {L.bool_(bool(op[1]))} {idsl(op[2])})"
        elif kind == "request":
            frames = self.request(6, 15, op[1])
            rep = [b for b in frames if (b.header.stream, b.header.function) == (6, 16)]
            ab = [b for b in frames if (b.header.stream, b.header.function) == (6, 0)]
            out = self.report_lit(rep[0]) if len(rep) == 1 and not ab else ("RAbort" if ab and not rep else "RNothing")
            lit = f"(RRequest {idl(op[1])})"
        elif kind == "trigger":
            self.rig.handler.trigger_collection_events([op[1]])
            if not self.rig.settle():
                raise RuntimeError("rig did not settle after trigger")
            rep = [b for b in self.rig.new_frames() if (b.header.stream, b.header.function) == (6, 11)]
            if len(rep) > 1:
                raise RuntimeError("more than one S6F11 for one trigger")
            out = self.report_lit(rep[0]) if rep else "RNothing"
            lit = f"(RTrigger {idl(op[1])})"
        elif kind == "trigger_many":
            # one call with several (distinct) events: each of them is due its own S6F11, whatever the others are
            self.rig.handler.trigger_collection_events(list(op[1]))
            if not self.rig.settle():
                raise RuntimeError("rig did not settle after trigger")
            rep = [b for b in self.rig.new_frames() if (b.header.stream, b.header.function) == (6, 11)]
            by_ce = {}
            for b in rep:
                by_ce.setdefault(plain(self.decode(b).get()["CEID"]), []).append(b)
            if any(len(v) > 1 for v in by_ce.values()) or any(k not in op[1] for k in by_ce):
                raise RuntimeError("S6F11 for an event that was not triggered, or two for one event")
            return [(f"(RTrigger {idl(ce)})", self.report_lit(by_ce[ce][0]) if ce in by_ce else "RNothing") for ce in op[1]]
        elif kind == "trigger_held":
            # one call with the events [a, b, c]; a is linked and enabled, the host holds its S6F12 back and meanwhile makes a request about b
            # (delete its report, unlink it, disable it).  The equipment decides about each event when its turn comes: a and c are judged like
            # single triggers before / after the host's request; b's turn may be read either way and is not judged.
            import threading
            import time
            a, b, c = op[1]
            responder = self.rig.responders.pop((6, 11))
            ack = lambda system: gemrig.data_frame(6, 12, system, b"\x21\x01\x00")  # noqa: E731
            pairs = []
            try:
                self.rig.handler.trigger_collection_events([a, b, c])
                deadline = time.monotonic() + 10
                while (6, 11) not in self.rig.pending:
                    if time.monotonic() > deadline:
                        raise RuntimeError("no S6F11 for the first (linked, enabled) event of a trigger call")
                    time.sleep(0.0005)
                senders = [t for t in threading.enumerate() if "_ce_sender" in t.name]
                for t in senders:
                    t.parked = True
                if not self.rig.settle():
                    raise RuntimeError("rig did not settle while the S6F12 is held back")
                first = [x for x in self.rig.new_frames() if (x.header.stream, x.header.function) == (6, 11)]
                pairs.append((f"(RTrigger {idl(a)})", self.report_lit(first[0]) if len(first) == 1 else "RNothing", self.state()))
                pairs += [(lit, out, self.state()) for lit, out in self.do(op[2])]
                for t in senders:
                    t.parked = False
                later = []
                deadline = time.monotonic() + 15
                while any(t.is_alive() for t in senders) or (6, 11) in self.rig.pending:
                    if (6, 11) in self.rig.pending:
                        self.rig.resolve((6, 11), ack)
                    if time.monotonic() > deadline:
                        raise RuntimeError("the sender thread of a trigger call did not finish")
                    time.sleep(0.0005)
                if not self.rig.settle():
                    raise RuntimeError("rig did not settle after trigger")
                later = [x for x in self.rig.new_frames() if (x.header.stream, x.header.function) == (6, 11)]
                of_c = [x for x in later if plain(self.decode(x).get()["CEID"]) == c]
                if len(of_c) > 1 or any(plain(self.decode(x).get()["CEID"]) not in (b, c) for x in later):
                    raise RuntimeError("S6F11 for an event that was not triggered, or two for one event")
                pairs.append((f"(RTrigger {idl(c)})", self.report_lit(of_c[0]) if of_c else "RNothing", None))
            finally:
                self.rig.responders[(6, 11)] = responder
            return pairs
        else:
            raise ValueError(kind)
        return [(lit, out)]

    def ack(self, frames, sf):
        hit = [b for b in frames if (b.header.stream, b.header.function) == sf]
        if len(hit) != 1:
            return "RAbort" if any(b.header.function == 0 for b in frames) else "RNothing"
        return f"(RAck {L.z(int(self.decode(hit[0]).get()))})"


def run_history(ops):
    eq = Equip()
    steps = []
    try:
        for op in ops:
            if op[0] == "set":
                eq.set_value(op[1], op[2])
                continue
            pairs = eq.do(op)
            final = eq.state()
            vals = "[" + ";".join(f"({idl(k)}, {L.z(v)})" for k, v in eq.values.items()) + "]"
            for pair in pairs:
                lit, out = pair[0], pair[1]
                reports, links = pair[2] if len(pair) > 2 and pair[2] is not None else final
                steps.append("{| q_op := " + lit + "; q_values := " + vals + "; q_out := " + out + "; q_reports := ["
                             + ";".join(f"({idl(k)}, {idsl(vs)})" for k, vs in reports) + "]; q_links := ["
                             + ";".join(f"({idl(k)}, ({idsl(rs)}, {L.bool_(en)}))" for k, rs, en in links) + "] |}")
    finally:
        eq.rig.stop()
    return steps


def case_lit(ops):
    steps = run_history(ops)
    return "{| q_vids := " + idsl(VIDS) + "; q_ceids := " + idsl(CEIDS + [3, 20, 21]) + "; q_steps := [" + ";\n   ".join(steps) + "] |}"


def rand_ops(rnd, n):
    ops = []
    for _ in range(n):
        c = rnd.random()
        if c < 0.28:
            entries = []
            for _ in range(rnd.choice([0, 1, 1, 1, 2, 2, 3])):
                r = rnd.choice(RPTIDS)
                k = rnd.choice([0, 1, 1, 2, 2, 3])
                vs = [rnd.choice(VIDS) if rnd.random() < 0.92 else 99 for _ in range(k)]
                entries.append((r, vs))
            ops.append(("define", entries))
        elif c < 0.55:
            entries = []
            for _ in range(rnd.choice([0, 1, 1, 1, 2, 2])):
                ce = rnd.choice(CEIDS) if rnd.random() < 0.93 else 7
                k = rnd.choice([0, 1, 1, 1, 2, 2, 3])
                rs = [rnd.choice(RPTIDS) if rnd.random() < 0.95 else 9 for _ in range(k)]
                entries.append((ce, rs))
            ops.append(("link", entries))
        elif c < 0.70:
            which = [] if rnd.random() < 0.5 else [rnd.choice(CEIDS + [7]) for _ in range(rnd.choice([1, 1, 2]))]
            ops.append(("enable", rnd.random() < 0.75, which))
        elif c < 0.82:
            ops.append(("request", rnd.choice(CEIDS + [7])))
        elif c < 0.88:
            ops.append(("trigger", rnd.choice(CEIDS)))
        elif c < 0.93:
            ops.append(("trigger_many", rnd.sample(CEIDS + [3], rnd.choice([2, 3, 4]))))
        else:
            ops.append(("set", rnd.choice(VIDS), rnd.randint(0, 1000)))
    return ops


DIRECTED = [
    # a host request about a later event of a trigger call arrives between the S6F11 of an earlier one and its S6F12: the events behind it are
    # judged when their turn comes (delete the report of b, unlink b, disable b; c untouched and due its report)
    [("define", [(1, [10]), (2, [20]), ("r", ["sx"])]), ("link", [(1, [1]), (2, [2]), ("ce", ["r"])]), ("enable", True, []), ("set", 10, 5),
     ("trigger_held", [1, 2, "ce"], ("define", [(2, [])])), ("request", 2), ("request", "ce"),
     ("define", [(2, [20])]), ("link", [(2, [2])]), ("enable", True, [2]), ("trigger_held", ["ce", 2, 1], ("link", [(2, [])])), ("request", 1),
     ("link", [(2, [2])]), ("enable", True, [2]), ("trigger_held", [2, 1, "ce"], ("enable", False, [1])), ("trigger_held", [2, "ce", 1], ("define", [])), ("request", 2)],
    # several events in one trigger call: the enabled ones are reported, wherever the others stand in the list
    [("define", [(1, [10]), (2, [20])]), ("link", [(1, [1]), (2, [2]), ("ce", [1, 2])]), ("enable", True, [1]), ("trigger_many", [2, 1]), ("trigger_many", [3, "ce", 1, 2]),
     ("enable", True, ["ce"]), ("trigger_many", [2, "ce", 1]), ("enable", False, [1]), ("trigger_many", [1, 2, "ce"]), ("trigger_many", [1, "ce"])],
    # define, link, enable, read, delete one, read, delete all
    [("set", 10, 7), ("set", 20, 9), ("define", [(1, [10, 20]), ("r", ["sx"])]), ("link", [(1, [1, "r"])]), ("enable", True, []), ("request", 1), ("trigger", 1),
     ("set", 10, 8), ("request", 1), ("define", [(1, [])]), ("request", 1), ("trigger", 1), ("define", []), ("request", 1)],
    # the same report named twice for one event, then deleted
    [("define", [(1, [10])]), ("link", [(2, [1, 1])]), ("enable", True, [2]), ("request", 2), ("define", [(1, [])]), ("request", 2), ("trigger", 2)],
    [("define", [(1, [10]), (2, [20])]), ("link", [(1, [1]), (1, [1])]), ("enable", True, []), ("define", [(1, [])]), ("request", 1), ("trigger", 1)],
    # refused requests change nothing
    [("define", [(1, [10])]), ("define", [(2, [20]), (1, [20])]), ("define", [(2, [99])]), ("define", [(2, [10]), ("r", [99])]), ("link", [(1, [1]), (7, [1])]), ("link", [(1, [1, 9])]),
     ("link", [(1, [1])]), ("link", [(2, [1]), (1, [1])]), ("enable", True, [1, 7]), ("enable", True, [7, 1]), ("request", 1)],
    # a second report is linked to an event that is already linked and enabled: it stays enabled and reports both
    [("define", [(1, [10]), (2, [20])]), ("link", [(1, [1])]), ("enable", True, [1]), ("link", [(1, [2])]), ("request", 1), ("trigger", 1), ("enable", False, [1]), ("link", [("ce", [1])]),
     ("enable", True, ["ce"]), ("link", [("ce", [2])]), ("trigger", "ce"), ("request", "ce")],
    # delete and define the same id in one request; define twice in one request
    [("define", [(1, [10])]), ("define", [(1, []), (1, [20])]), ("define", [(2, [10]), (2, [20])]), ("link", [("ce", [2])]), ("enable", True, ["ce"]), ("request", "ce"), ("trigger", "ce")],
    # a report linked to several events is deleted: every event loses it
    [("define", [(1, [10]), (2, [20])]), ("link", [(1, [1]), (2, [1, 2]), ("ce", [2, 1])]), ("enable", True, []), ("define", [(1, [])]), ("request", 1), ("request", 2), ("request", "ce"),
     ("trigger", 2), ("define", [(2, [])]), ("request", 2), ("request", "ce")],
    # refused requests that also contain an unlink / delete entry: nothing may happen
    [("define", [(1, [10]), (2, [20])]), ("link", [(1, [1]), (2, [2])]), ("enable", True, []), ("link", [(1, []), (1, [9])]), ("request", 1), ("link", [(2, []), (7, [1])]), ("request", 2),
     ("link", [(1, []), (2, [2])]), ("request", 1), ("define", [(1, []), (2, [20])]), ("request", 1), ("define", [(1, []), ("r", [99])]), ("request", 1), ("define", [(2, []), (1, [10])]), ("request", 2)],
    # unlink, relink: the enabled flag
    [("define", [(1, [10])]), ("link", [(1, [1])]), ("enable", True, []), ("link", [(1, [])]), ("link", [(1, [1])]), ("request", 1), ("trigger", 1), ("enable", False, [1]), ("request", 1)],
]


SMALL = [("define", [(1, [10])]), ("define", [(2, [20, 10])]), ("define", [(1, [])]), ("define", []), ("define", [(1, [10]), (1, [20])]), ("define", [(2, [99])]),
         ("link", [(1, [1])]), ("link", [(1, [1, 2])]), ("link", [(2, [1, 1])]), ("link", [(1, [])]), ("link", [(1, [2]), (2, [2])]), ("link", [(7, [1])]),
         ("enable", True, []), ("enable", False, [1]), ("enable", True, [1, 7]), ("request", 1), ("request", 2), ("trigger", 1)]


def exhaustive(depth, alphabet):
    import itertools
    for seq in itertools.product(alphabet, repeat=depth):
        yield list(seq) + [("request", 1), ("request", 2)]


def gen_cases(rnd, tier):
    cases = [("directed", d) for d in DIRECTED]
    if tier == "thorough":
        cases += [("exhaustive3", h) for h in exhaustive(3, SMALL[:15])]
        cases += [("exhaustive2", h) for h in exhaustive(2, SMALL)]
    else:
        cases += [("exhaustive2", h) for k, h in enumerate(exhaustive(2, SMALL)) if k % 3 == 0]
    n = 120 if tier == "quick" else 800
    for _ in range(n):
        cases.append(("random", rand_ops(rnd, rnd.randint(2, 14 if tier == "quick" else 40))))
    return cases


HEADER = "From SG Require Import Base.Prelude Spec.E5Reports Model.EventReports Run.C12Run.\nOpen Scope Z_scope.\n"


def evaluate(lits, prefix, shard=60):
    shards, maps = [], []
    idx = list(range(len(lits)))
    for s in range(0, len(idx), shard):
        part = idx[s: s + shard]
        maps.append(part)
        shards.append("Definition cs : list c12case := [\n" + ";\n".join(lits[i] for i in part) + "\n].\nEval vm_compute in run_c12 cs.\n")
    outs = common.coq_eval_shards(prefix, HEADER, shards)
    bad, skipped, checked, errors = [], 0, 0, []
    for part, (ok, text) in zip(maps, outs):
        parsed = common.parse_triples(text) if ok else None
        if parsed is None:
            errors.append(text[-800:])
            continue
        b, sk, ch = parsed
        skipped += sk
        checked += ch
        bad.extend((part[i], m, s) for i, m, s in b)
    return bad, {"skipped_unmodelled": skipped, "spec_checked": checked, "eval_errors": errors, "observed": len(lits)}


SPEC_CODES = {31: "an accepted request (acknowledge 0) did not have the effect E5 describes", 32: "the refusal code is not one E5 assigns to this request",
              33: "the event report differs from the linked reports / current values", 34: "a refused request changed the configuration",
              35: "integrity: an event is linked to a report that does not exist", 36: "the request was aborted (SxF0)"}
MODEL_CODES = {12: "model and implementation answer differently", 13: "model and implementation hold different reports", 14: "model and implementation hold different links"}


def run(tier, replay=None):
    import json
    import logging
    from collections import Counter
    logging.disable(logging.CRITICAL)
    report = common.Report("C12", tier)
    if replay:
        doc = json.load(open(replay))
        print(json.dumps(doc, indent=1)[:3000])
        if doc.get("ops"):
            print("re-run on the implementation now:", case_lit([tuple(o) for o in doc["ops"]])[:3000])
        return 0
    proof = common.prove(report, "C12", [], extra_targets=["Run/C12Run.vo"])
    ok, log = common.coq_make(["Run/C12Run.vo"])
    if not ok:
        report.violation({"kind": "broken-obligation", "obligation": "Run/C12Run.vo does not build", "detail": log[-1500:], "also": proof.get("broken")}, False, tag="modelbuild")
        return report.finish()
    rnd = common.rng("c12")
    cases = gen_cases(rnd, tier)
    wedged, kept, lits = [], [], []
    for c in cases:
        lit = common.guarded(lambda c=c: case_lit(c[1]), repr(c[1]), wedged)
        if lit is not None:
            kept.append(c)
            lits.append(lit)
    cases = kept
    common.report_wedged(report, wedged, proof)
    bad, stats = evaluate(lits, "c12")
    spec_bad = [(i, m, sc) for i, m, sc in bad if sc >= 30]
    model_bad = [(i, m, sc) for i, m, sc in bad if m >= 10 and sc < 30]
    reported = set()
    for i, m, sc in sorted(spec_bad, key=lambda t: len(cases[t[0]][1])):
        if sc in reported:
            continue
        reported.add(sc)
        report.violation({"kind": "counterexample", "what": SPEC_CODES.get(sc, str(sc)), "ops": cases[i][1], "observed_case": lits[i], "model_code": m,
                          "broken_obligation": proof.get("broken")}, True, tag=f"spec{sc}")
    if not spec_bad:
        if model_bad:
            i, m, sc = min(model_bad, key=lambda t: len(cases[t[0]][1]))
            report.violation({"kind": "broken-correspondence", "obligation": "Model/EventReports.v no longer behaves like collection_event_capability.py: " + MODEL_CODES.get(m, str(m)),
                              "ops": cases[i][1], "observed_case": lits[i], "count": len(model_bad)}, False, tag="model")
        elif stats["eval_errors"]:
            report.violation({"kind": "broken-correspondence", "obligation": "case evaluation failed", "detail": stats["eval_errors"][0]}, False, tag="eval")
        elif not proof["ok"]:
            report.violation({"kind": "broken-obligation", "obligation": proof["broken"], "searched": f"{len(lits)} histories on the implementation, none leaves what E5 admits"}, False, tag="proof")
    cov = report.coverage
    cov["evaluations"] = sum(len(o) for _k, o in cases)
    cov["distinct_nontrivial"] = len(set(lits))
    cov["rule"] = ("a real GemEquipmentHandler with numeric and text ids (VIDs 10,'sx',20; CEIDs 1,2,'ce'; RPTIDs 1,2,'r' plus unknown ones): random and directed histories of "
                   "S2F33 (define / delete-one / delete-all, ids repeated inside a request, unknown VIDs, redefinitions), S2F35 (link / unlink, a report named twice, unknown ids, "
                   "already linked), S2F37 (all / listed / unknown), S6F15, trigger_collection_events and value changes; after every step the reply or S6F11, "
                   "registered_reports and registered_collection_events are compared with the model (exactly) and with what E5 admits from the configuration before the step")
    cov["correspondence"] = {k: v for k, v in stats.items() if k != "eval_errors"}
    cov["distribution"] = {"kinds": dict(Counter(k for k, _ in cases)), "ops": dict(Counter(o[0] for _k, ops in cases for o in ops)),
                           "history_lengths": dict(Counter(min(len(o) // 10 * 10, 40) for _k, o in cases))}
    cov["samples"] = [repr(o)[:300] for _k, o in cases[:: max(1, len(cases) // 5)][:5]]
    return report.finish()
