"""Translator: TcpConnection.send_data -> coq/Gen/Send.v (fail-closed).

Recognises the send loop: a while loop that waits until the socket is writable, calls self._socket.send(data) inside
try/except OSError (EWOULDBLOCK/EAGAIN: try again, any other error: return False) and returns True at the end.  Emitted:
whether the loop advances by the count send() returns (`n = self._socket.send(data)` ... `data = data[n:]`, loop until
data is empty) or treats one successful send() call as "all sent".
"""
from __future__ import annotations

import ast
import os
import sys

from astutil import GEN_DIR, TranslationError, find_class, find_method, parse, write_if_changed

REL = "secsgem/common/tcp_connection.py"


SOCK = [None]      # the local name bound to self._socket in front of the loop, if any


def is_socket_send(node):
    if not (isinstance(node, ast.Call) and isinstance(node.func, ast.Attribute) and node.func.attr == "send" and len(node.args) == 1 and isinstance(node.args[0], ast.Name)):
        return False
    obj = node.func.value
    return (isinstance(obj, ast.Attribute) and obj.attr == "_socket") or (isinstance(obj, ast.Name) and obj.id == SOCK[0])


def one_socket(fn, loop):
    """`sock = self._socket` in front of the loop and no other look at self._socket: every part of a message is offered to the same socket"""
    SOCK[0] = None
    pre = fn.body[: fn.body.index(loop)]
    binds = [st for st in pre if isinstance(st, ast.Assign) and len(st.targets) == 1 and isinstance(st.targets[0], ast.Name) and isinstance(st.value, ast.Attribute)
             and st.value.attr == "_socket" and isinstance(st.value.value, ast.Name) and st.value.value.id == "self"]
    reads = [n for n in ast.walk(fn) if isinstance(n, ast.Attribute) and n.attr == "_socket"]
    if len(binds) == 1 and len(reads) == 1:
        SOCK[0] = binds[0].targets[0].id
        if any(isinstance(n, ast.Assign) and any(isinstance(t, ast.Name) and t.id == SOCK[0] for t in n.targets) for n in ast.walk(loop)):
            raise TranslationError(f"{REL}: send_data: the socket variable is assigned inside the loop")
        return True
    if binds:
        raise TranslationError(f"{REL}: send_data: self._socket is bound to a local and read again")
    return False


def generate() -> str:
    cls = find_class(parse(REL), "TcpConnection", REL)
    fn = find_method(cls, "send_data")
    if [a.arg for a in fn.args.args] != ["self", "data"]:
        raise TranslationError(f"{REL}: send_data signature")
    loops = [n for n in fn.body if isinstance(n, ast.While)]
    if len(loops) != 1:
        raise TranslationError(f"{REL}: send_data: one top-level while loop expected")
    loop = loops[0]
    single = one_socket(fn, loop)
    last = fn.body[-1]
    if not (isinstance(last, ast.Return) and isinstance(last.value, ast.Constant) and last.value.value is True):
        raise TranslationError(f"{REL}: send_data: final 'return True' expected")
    def is_wait(n):
        return isinstance(n, ast.While) and any(isinstance(c, ast.Attribute) and c.attr == "select" for c in ast.walk(n.test))

    def is_guarded_wait(n):
        # try: <the wait loop>  except (OSError, ValueError): return False      (the socket was closed meanwhile: a failure like any other)
        return (isinstance(n, ast.Try) and len(n.body) == 1 and is_wait(n.body[0]) and len(n.handlers) == 1 and not n.orelse and not n.finalbody
                and len(n.handlers[0].body) >= 1 and isinstance(n.handlers[0].body[-1], ast.Return) and isinstance(n.handlers[0].body[-1].value, ast.Constant)
                and n.handlers[0].body[-1].value.value is False
                and all(isinstance(st, ast.Expr) and isinstance(st.value, ast.Constant) for st in n.handlers[0].body[:-1]))

    tries = [n for n in loop.body if isinstance(n, ast.Try) and not is_guarded_wait(n)]
    if len(tries) != 1:
        raise TranslationError(f"{REL}: send_data: one try statement around the send expected in the loop")
    tr = tries[0]
    # the wait for writability precedes the try (bare, or guarded so that a closed socket counts as a failed send)
    waits = [n for n in loop.body[: loop.body.index(tr)] if is_wait(n) or is_guarded_wait(n)]
    if len(waits) != 1:
        raise TranslationError(f"{REL}: send_data: the select() wait before the send was not found")
    # error handling
    if len(tr.handlers) != 1 or not (isinstance(tr.handlers[0].type, ast.Name) and tr.handlers[0].type.id == "OSError"):
        raise TranslationError(f"{REL}: send_data: 'except OSError' expected")
    h = tr.handlers[0]
    fails = False
    for st in h.body:
        if isinstance(st, ast.If) and any(isinstance(c, ast.Name) and c.id == "is_errorcode_ewouldblock" for c in ast.walk(st.test)) and isinstance(st.test, ast.UnaryOp) and isinstance(st.test.op, ast.Not):
            fails = any(isinstance(s, ast.Return) and isinstance(s.value, ast.Constant) and s.value.value is False for s in st.body)
    if not fails:
        raise TranslationError(f"{REL}: send_data: 'if not is_errorcode_ewouldblock(...): return False' expected")
    # the send itself
    sends = [n for n in ast.walk(tr) if is_socket_send(n)]
    if len(sends) != 1 or sends[0].args[0].id != "data":
        raise TranslationError(f"{REL}: send_data: exactly one self._socket.send(data) expected")
    count_var = None
    for st in tr.body:
        if isinstance(st, ast.Assign) and len(st.targets) == 1 and isinstance(st.targets[0], ast.Name) and st.value is sends[0]:
            count_var = st.targets[0].id
    advances = False
    if count_var is not None:
        for st in ast.walk(loop):
            if (isinstance(st, ast.Assign) and len(st.targets) == 1 and isinstance(st.targets[0], ast.Name) and st.targets[0].id == "data"
                    and isinstance(st.value, ast.Subscript) and isinstance(st.value.value, ast.Name) and st.value.value.id == "data"
                    and isinstance(st.value.slice, ast.Slice) and isinstance(st.value.slice.lower, ast.Name) and st.value.slice.lower.id == count_var
                    and st.value.slice.upper is None):
                advances = True
        if not (isinstance(loop.test, ast.Name) and loop.test.id == "data"):
            advances = False
        if not advances:
            raise TranslationError(f"{REL}: send_data: the count returned by send() is stored but the loop is not 'while data: ... data = data[{count_var}:]'")
    else:
        # one-shot: the loop variable is cleared after the send
        if not (isinstance(loop.test, ast.Name) and any(isinstance(s, ast.Assign) and isinstance(s.targets[0], ast.Name) and s.targets[0].id == loop.test.id
                                                         and isinstance(s.value, ast.Constant) and s.value.value is False for s in tr.body)):
            raise TranslationError(f"{REL}: send_data: loop shape not recognised")
    return "\n".join(["(* GENERATED by harness/gen_send.py from TcpConnection.send_data — do not edit. *)", "From SG Require Import Base.Prelude.", "",
                      f"Definition send_advances : bool := {'true' if advances else 'false'}.",
                      "(* the socket is looked up once per message: every part is offered to the connection the message was started on *)",
                      f"Definition send_on_one_socket : bool := {'true' if single else 'false'}.", ""])


if __name__ == "__main__":
    try:
        changed = write_if_changed(os.path.join(GEN_DIR, "Send.v"), generate())
        print(f"gen_send: {'updated' if changed else 'unchanged'}")
    except TranslationError as exc:
        print(f"TRANSLATION-ERROR gen_send: {exc}")
        sys.exit(3)
