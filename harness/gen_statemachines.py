"""Translator: the three shipped state-machine definitions -> coq/Gen/Machines.v (fail-closed).

Reads the __init__ of ConnectionStateMachine, CommunicationStateMachine and ControlStateMachine:
the `self.x = secsgem.common.State(Enum.MEMBER, "NAME", parent=self.y, initial=True)` assignments, the
`self._current_state = self.x` assignment and the `self._transitions = [Transition("name", sources, dest), ...]` list.
"""
from __future__ import annotations

import ast
import os
import sys

from astutil import GEN_DIR, TranslationError, coq_str, find_class, find_method, lit_int, lit_str, parse, write_if_changed

FILES = [
    ("connection", "secsgem/hsms/connection_state_machine.py", "ConnectionStateMachine", "ConnectionState"),
    ("communication", "secsgem/gem/communication_state_machine.py", "CommunicationStateMachine", "CommunicationState"),
    ("control", "secsgem/gem/control_state_machine.py", "ControlStateMachine", "ControlState"),
]


def self_attr(node, what):
    if isinstance(node, ast.Attribute) and isinstance(node.value, ast.Name) and node.value.id == "self":
        return node.attr
    raise TranslationError(f"{what}: self.<attr> expected, got {ast.dump(node)[:80]}")


def is_call_to(node, name):
    return isinstance(node, ast.Call) and ((isinstance(node.func, ast.Attribute) and node.func.attr == name) or (isinstance(node.func, ast.Name) and node.func.id == name))


def read_machine(rel, clsname, enumname):
    mod = parse(rel)
    enum_cls = find_class(mod, enumname, rel)
    enum_vals = {}
    for node in enum_cls.body:
        if isinstance(node, ast.Assign) and isinstance(node.targets[0], ast.Name):
            enum_vals[node.targets[0].id] = lit_int(node.value, rel)
    init = find_method(find_class(mod, clsname, rel), "__init__")
    states = []  # (attr, enum member, name, parent attr, initial)
    current = None
    trans = None
    for node in init.body:
        if not isinstance(node, (ast.Assign, ast.AnnAssign)):
            continue
        target = node.targets[0] if isinstance(node, ast.Assign) else node.target
        value = node.value
        if not (isinstance(target, ast.Attribute) and isinstance(target.value, ast.Name) and target.value.id == "self"):
            continue
        if is_call_to(value, "State"):
            if len(value.args) < 2:
                raise TranslationError(f"{rel}: State(...) needs enum and name")
            member = value.args[0]
            if not (isinstance(member, ast.Attribute) and isinstance(member.value, ast.Name) and member.value.id == enumname and member.attr in enum_vals):
                raise TranslationError(f"{rel}: State enum argument")
            parent = None
            initial = False
            extra = list(value.args[2:])
            if extra:
                parent = None if (isinstance(extra[0], ast.Constant) and extra[0].value is None) else self_attr(extra[0], rel)
            if len(extra) > 1:
                initial = bool(ast.literal_eval(extra[1]))
            for kw in value.keywords:
                if kw.arg == "parent":
                    parent = None if (isinstance(kw.value, ast.Constant) and kw.value.value is None) else self_attr(kw.value, rel)
                elif kw.arg == "initial":
                    initial = bool(ast.literal_eval(kw.value))
                else:
                    raise TranslationError(f"{rel}: State keyword {kw.arg}")
            states.append((target.attr, member.attr, lit_str(value.args[1], rel), parent, initial))
        elif target.attr == "_current_state":
            current = self_attr(value, rel)
        elif target.attr == "_transitions":
            if not isinstance(value, ast.List):
                raise TranslationError(f"{rel}: _transitions is not a list literal")
            trans = []
            for el in value.elts:
                if not is_call_to(el, "Transition") or len(el.args) != 3 or el.keywords:
                    raise TranslationError(f"{rel}: Transition(name, sources, destination) expected")
                name = lit_str(el.args[0], rel)
                srcs = el.args[1]
                srcs = [self_attr(x, rel) for x in srcs.elts] if isinstance(srcs, ast.List) else [self_attr(srcs, rel)]
                trans.append((name, srcs, self_attr(el.args[2], rel)))
    if not states or current is None or trans is None:
        raise TranslationError(f"{rel}: states / _current_state / _transitions not found")
    index = {attr: i for i, (attr, *_rest) in enumerate(states)}
    for attr, _m, _n, parent, _i in states:
        if parent is not None and (parent not in index or index[parent] >= index[attr]):
            raise TranslationError(f"{rel}: parent of {attr} is not an earlier state")
    for name, srcs, dst in trans:
        for x in [*srcs, dst]:
            if x not in index:
                raise TranslationError(f"{rel}: transition {name} mentions unknown state {x}")
    if current not in index:
        raise TranslationError(f"{rel}: initial state unknown")
    initials = [attr for attr, _m, _n, _p, ini in states if ini]
    if initials != [current]:
        raise TranslationError(f"{rel}: states flagged initial {initials} differ from _current_state {current}")
    # which handler methods request which transitions (from inside enter/leave callbacks)
    return states, index, trans, current, enum_vals


def engine_locked() -> bool:
    """StateMachine._perform_transition: are the source check, leave, the assignment of the current state, enter and the called event
    all inside ONE `with self.<lock>:` block, <lock> being a threading.RLock / Lock created in __init__?"""
    import ast
    rel = "secsgem/common/state_machine.py"
    cls = find_class(parse(rel), "StateMachine", rel)
    init = find_method(cls, "__init__")
    locks = set()
    for n in ast.walk(init):
        if (isinstance(n, ast.Assign) and len(n.targets) == 1 and isinstance(n.targets[0], ast.Attribute) and isinstance(n.targets[0].value, ast.Name)
                and n.targets[0].value.id == "self" and isinstance(n.value, ast.Call) and isinstance(n.value.func, ast.Attribute) and n.value.func.attr in ("RLock", "Lock")):
            locks.add(n.targets[0].attr)
    fn = find_method(cls, "_perform_transition")

    def touches_state(node):
        d = ast.dump(node)
        return "_current_state" in d or "attr='enter'" in d or "attr='leave'" in d
    withs = [st for st in fn.body if isinstance(st, ast.With)]
    outside = [st for st in fn.body if not isinstance(st, ast.With) and not (isinstance(st, ast.Expr) and isinstance(st.value, ast.Constant)) and touches_state(st)]
    if outside:
        return False
    if len(withs) != 1 or len(withs[0].items) != 1:
        return False
    ctx = withs[0].items[0].context_expr
    if not (isinstance(ctx, ast.Attribute) and isinstance(ctx.value, ast.Name) and ctx.value.id == "self" and ctx.attr in locks):
        return False
    body = ast.dump(ast.Module(body=withs[0].body, type_ignores=[]))
    # the check, leave, the assignment, enter and the transition's own event
    return all(k in body for k in ("WrongSourceStateError", "attr='leave'", "attr='enter'", "_current_state")) and any(
        isinstance(st, ast.Expr) and isinstance(st.value, ast.Call) and isinstance(st.value.func, ast.Name) and st.value.func.id == "transition" for st in withs[0].body)


def generate() -> str:
    out = ["(* GENERATED by harness/gen_statemachines.py from the three shipped state machine modules — do not edit. *)",
           "From SG Require Import Base.Prelude Model.StateMachine.", "Open Scope nat_scope.", ""]
    for key, rel, clsname, enumname in FILES:
        states, index, trans, current, enum_vals = read_machine(rel, clsname, enumname)
        out.append(f"(* {rel} : {clsname} *)")
        out.append(f"Definition {key}_state_names : list string := [" + "; ".join(coq_str(n) for _a, _m, n, _p, _i in states) + "].")
        out.append(f"Definition {key}_state_enum : list nat := [" + "; ".join(str(enum_vals[m]) for _a, m, _n, _p, _i in states) + "].")
        out.append(f"Definition {key}_machine : machine := {{|")
        out.append("  m_parent := [" + "; ".join("None" if p is None else f"Some {index[p]}" for _a, _m, _n, p, _i in states) + "];")
        out.append("  m_trans := [" + ";\n              ".join(f"({coq_str(n)}, [" + "; ".join(str(index[s]) for s in srcs) + f"], {index[d]})" for n, srcs, d in trans) + "] |}.")
        out.append(f"Definition {key}_initial : nat := {index[current]}.")
        for attr, _m, name, _p, _i in states:
            out.append(f"Definition {key}_{name} : nat := {index[attr]}.")
        out.append("")
    out.append("(* secsgem/common/state_machine.py : StateMachine._perform_transition - check, leave, assignment, enter and the called event under one lock *)")
    out.append(f"Definition engine_transition_locked : bool := {'true' if engine_locked() else 'false'}.")
    out.append("")
    return "\n".join(out)


if __name__ == "__main__":
    try:
        changed = write_if_changed(os.path.join(GEN_DIR, "Machines.v"), generate())
        print(f"gen_statemachines: {'updated' if changed else 'unchanged'}")
    except TranslationError as exc:
        print(f"TRANSLATION-ERROR gen_statemachines: {exc}")
        sys.exit(3)
