"""Writes /verif/MANIFEST.json from the table below (kept in one place so it stays valid)."""
import json
import os

VERIF = os.path.dirname(os.path.dirname(os.path.abspath(__file__)))

NOTE_COMMON = ("Trusted: Coq 8.16.1 kernel + vm_compute (no native_compute); no axioms declared, Print Assumptions per theorem in the evidence; "
               "fail-closed ast translators (harness/gen_*.py; harness/pyfuns.py translates the bodies of the header functions statement by statement) regenerate coq/Gen/*.v on every run; hand-written Gallina model tied to /repo by "
               "the correspondence check (model evaluated inside Coq, no extraction); CPython built-ins (struct, codecs, int/float, dict order) are modelled not verified.")

CLAIMED = {
    "C01": dict(
        text="Theorems (Props/C01.v): the model's encoder equals the independent E5 specification for every value, type, nesting and length "
             "(C01_encode_exact, C01_header_bits incl. all length-byte boundaries), decode(encode v ++ tail) returns the value and consumes exactly "
             "the encoding (C01_roundtrip, structural induction, unbounded), unchanged unless an F4 double is not a binary32 value (C01_equal_value); "
             "class constants are regenerated from the source and proved equal to the E5 table (C01_constants_are_E5). The model is tied to the code by "
             "differential execution on ~2k (quick) / ~14k (thorough) cases whose observations are also judged by the specification alone. The item header functions Base.encode_item_header / decode_item_header are translated statement by statement from the source on every run (harness/pyfuns.py -> Gen/PyVarHdr.v) and proved equal to the model's for every format code, length, byte string and position (C01_header_code_is_model).",
        note=NOTE_COMMON + " Not modelled: int('12')/float('1.5')/str(number) conversions, NaN payloads, Boolean from strings; count=0 types are outside the domain.",
        technique="Rocq proof (induction over nested values) + translator-regenerated constants + in-Coq differential correspondence",
        design="5/C01",
    ),
    "C02": dict(
        text="Theorems (Props/C02.v): for every byte string the independent reference decoder accepts (1-3 length bytes whatever the magnitude, every "
             "format code, arbitrary nesting) and every receiving type that admits the item (fixed class, Dynamic with the code allowed, ANYVALUE), the "
             "model of the library decoder returns exactly the item's value and end position (C02_decode_valid, simulation by induction on nesting), the value "
             "denotes the item (C02_value_denotes_item) and re-encodes to the canonical encoding (C02_reencode_canonical); every finite binary32 survives "
             "widening/rounding and lies inside the regenerated F4 bounds (C02_every_finite_float32). Tied to the code by differential execution on "
             "re-laid-out encodings whose observations are judged by the reference decoder alone. The header reader Base.decode_item_header, translated from the source on every run, is proved equal to the model's for every byte string and position (C02_header_reader_is_model).",
        note=NOTE_COMMON + " NaN payloads are outside the statement (Python's nan != nan); records must be sent with all their fields.",
        technique="Rocq proof (decoder-vs-reference-decoder simulation) + translator-regenerated constants + in-Coq differential correspondence",
        design="5/C02",
    ),
    "C14": dict(
        text="Theorems (Props/C14.v): the Item API's encoder equals the variables API's encoder on every typed value (C14_apis_agree) and both equal the "
             "E5 specification (C14_encode_exact); Item.decode of every encoding the reference decoder accepts returns the item's value, which re-encodes "
             "canonically (C14_decode_reencode_canonical, via a model-to-model agreement lemma with the ANYVALUE decoder and C02's simulation); from_value(int) "
             "is exactly the standard's narrowest unsigned/signed type (C14_from_value_narrowest); the two regenerated constant tables coincide "
             "(C14_constants_coincide). Tied to the code by differential execution of constructors, from_value, encode, decode and the cross-API bytes. Item.encode_item_header / Item._decode_item_header and Base.encode_item_header are translated from the source on every run (Gen/PyItemHdr.v, Gen/PyVarHdr.v) and proved equal to the models and to each other for every format code and length (C14_header_code_is_model).",
        note=NOTE_COMMON + " JIS-8 items reach Item.decode only through the correspondence (Dynamic has no J entry, DESIGN 11); str.encode('utf-8') is modelled for ASCII only; floats given to from_value are outside the statement's list of plain types.",
        technique="Rocq proof (encoder equality, model-to-model decoder agreement, decision rule for from_value) + regenerated constants + in-Coq differential correspondence",
        design="5/C14",
    ),
    "C16": dict(
        text="Theorems (Props/C16.v): in-range headers and blocks are encoded exactly as the SEMI E4 layout and decode back (C16_header_exact, C16_block_exact); "
             "any body splits into <=244-byte blocks numbered 1..n with the end bit on the last only, other fields preserved, data concatenating to the body "
             "(C16_split); in any received trace - blocks of other system bytes interleaved anywhere - the blocks of one message yield its body under its last "
             "block's header, exactly once (C16_reassembly_interleaved, locality + induction over the trace), also when blocks of an attempt that was never completed are still "
             "kept for the same system bytes (C16_reassembly_after_abandoned_attempt); a block with any single byte altered is never "
             "accepted (C16_corruption_detected: arithmetic on the checksum, no wrap below 65536). Framing constants are regenerated from the source. SecsIHeader.encode / decode are translated statement by statement from the source on every run (Gen/PySecsIHdr.v) and proved equal to the model's header functions (C16_header_code_is_model). Protocol._add_message_block is read statement by statement on every run (Gen/Reasm.v): the model's key separates in-range headers exactly when the code's regenerated key tuple does, the start rule is the regenerated one (C16_reassembly_as_translated). Block.checksum is translated statement by statement and proved to be the model's sum (C16_checksum_code_is_model).",
        note=NOTE_COMMON + " The reassembled message reports the last block's header (block number n); messages above 32767 blocks are outside the statement.",
        technique="Rocq proof (bit-level header lemmas, trace induction with a per-system-id locality lemma, checksum arithmetic) + regenerated constants + in-Coq differential correspondence",
        design="5/C16",
    ),
    "C04": dict(
        text="Theorems (Props/C04.v): in-range messages encode to exactly the E37 frame and decode back (C04_frame_exact, C04_frame_roundtrip); for every list "
             "of valid frames and EVERY partition of their byte stream into segments the receive path delivers exactly those messages in order and ends empty "
             "and un-parked (C04_reassembly_segmentation_independent), as a corollary of: incremental feeding equals draining the concatenated stream "
             "(C04_incremental_equals_whole: commutation lemma drain(a ++ s), fuel irrelevance, stability). The model is the sequential behaviour of the "
             "receiver thread (append, trigger, peek length, wait for the frame, pop, decode, queue); it is tied to the real HsmsProtocol running its own threads. HsmsHeader.encode / decode are translated statement by statement from the source on every run - every self.x followed through its property and the __init__ chain to the constructor argument (Gen/PyHsmsHdr.v) - and proved equal to the model's header functions for every header and byte string (C04_header_code_is_model). The framing loop HsmsProtocol._process_received_data is translated statement by statement on every run (harness/gen_rxloop.py -> Gen/RxLoop.v) and proved equal to the model's drain for every buffer (C04_receive_loop_code_is_model).",
        note=NOTE_COMMON + " Thread interleavings of the TCP thread with the receiver thread are not quantified by the theorem (the rig observes quiescent states only); frames that fail to decode are outside the statement.",
        technique="Rocq proof (stream/segment commutation lemma + induction over segments and frames) + regenerated constants + in-Coq differential correspondence against the threaded receiver",
        design="5/C04",
    ),
    "C18": dict(
        text="Theorems (Props/C18.v): for any machine, handlers and state a disallowed or unknown request raises and changes nothing "
             "(C18_disallowed_raises_unchanged); for any flat machine and any programs of nested requests from enter/called handlers, to any depth, a normal "
             "return leaves exactly the current state active (C18_flat_nested_consistent, induction over the nesting); the three shipped machines, regenerated "
             "from the source, conform to the reference statechart semantics in every state for every request - verdict, destination, active set, events once "
             "each (C18_shipped_machines_conform, exhaustive over the finite tables). Where the property does NOT hold the development proves it: "
             "C18_nested_hierarchical_refuted and C18_nested_from_leave_refuted (known findings, replayed on the real engine). Concurrent requests: the engine performs one transition at a "
             "time under a reentrant lock - read off _perform_transition by gen_statemachines, C18_transitions_are_locked is the obligation (atomicity of a `with lock:` body is trusted) - "
             "so a concurrent execution is a sequence of whole transitions; without the lock two states end up active (C18_concurrent_refuted, D75). For ANY hierarchical machine (any forest with parents declared before "
             "children, any depth) whose callbacks request nothing, every allowed request reaches its destination and leaves exactly the destination and its ancestors "
             "active (C18_hierarchical_consistent, by induction along the ancestor chains); random forests are also compared with the reference by correspondence. State.enter, State.leave and _perform_transition are read statement by statement on every run (Gen/Engine.v); the model's enter / leave chains and its transition function are proved equal to interpreters of these regenerated sequences, for every machine, handler table and state (C18_engine_code_is_model).",
        note=NOTE_COMMON + " Handler programs are modelled as lists of requested transition names; what else a callback does is outside the engine. Concurrency is modelled at the granularity check / leave / set / enter / called.",
        technique="Rocq proof (induction over nested requests; exhaustive finite-table conformance by vm_compute + forallb lifting; refutation witnesses) + translator-regenerated machine tables + in-Coq differential correspondence on random machines",
        design="5/C18",
    ),
    "C19": dict(
        text="Theorems (Props/C19.v): the tokenizer splits any layout of a token sequence - any whitespace, any comments anywhere - into exactly those tokens "
             "(C19_layout_irrelevant); for EVERY definition of the documented grammar in the domain sfdl_dom (catalogue item names, lists with at least one member, distinct "
             "documented keys, naming_supported) written in ANY layout, the text is accepted and the generated structure has the documented shape - one member: open array, "
             "otherwise a record with the documented keys - at any nesting depth and width (C19_documented_shape, from C19_validation_accepts, C19_format_of_tokens, "
             "C19_shape_of_format by nested induction over the definition); the validation only accepts closed definitions over the list tag or known names "
             "(C19_accepts_only_closed_known, C19_structure_only_of_closed), and the definition has to be the whole text (C19_structure_only_of_whole_text, D56); the "
             "documentation's examples and rejections as computed instances; two failures are proved and recorded as known findings (C19_name_handdown_refuted, C19_duplicate_keys_refuted). The model (tokenizer, validation, _generate_from_sfdl, generate) is tied to the code by differential "
             "correspondence on random and exhaustively enumerated small definitions and their bracket/name mutations.",
        note=NOTE_COMMON + " The data item attribute table is regenerated reflectively (imports /repo's secsgem.secs.data_items). Empty lists are outside the documented grammar; an unnamed open list whose single member is a named list gets no key from the documentation and is outside naming_supported.",
        technique="Rocq proof (lexer layout lemma; print/parse theorem for the whole reader by nested induction over definitions; computed instances) + translator-regenerated data item table + in-Coq differential correspondence against the documented-shape specification",
        design="5/C19",
    ),
    "C15": dict(
        text="Theorems (Props/C15.v): for EVERY item of the domain sml_dom - lists at any depth and length, binary, boolean, A and J text that the codec can encode (quotes, "
             "control characters, blanks, brackets, non-ASCII), every integer class at any value in range, empty F4/F8 - the text to_sml prints at any indentation is tokenized "
             "and read back by from_sml as exactly that item (C15_roundtrip, from C15_tokens_of_printed_text and C15_reader_inverts_printer by nested induction over the item); "
             "on any text the reader's recursion is bounded by the number of tokens (C15_reader_terminates), every returned item consumed tokens (C15_reader_consumes); an item "
             "is only returned for tokens that start with '<' and a known type name and whose consumed part ends with '>' (C15_accepts_only_closed_known, "
             "C15_scalar_needs_closing_bracket) - and only if these are ALL tokens of the text: nothing may follow the item (C15_whole_text_is_one_item, D53); every integer printed is read back unchanged (C15_integers_roundtrip); computed instances. Non-empty F4/F8 items (float "
             "formatting, float()) are decided by the differential correspondence and the observed round trip only.",
        note=NOTE_COMMON + " float(text) and float formatting are not modelled (float items are judged by the observed round trip only); int('1_0') and non-ASCII digits are skipped; text nested deeper than CPython's recursion limit allows is the open finding C15-deep-nesting (directed probe).",
        technique="Rocq proof (print/parse round trip by nested induction with lexer-state lemmas, 256-case byte-code facts lifted from evaluation, termination/consumption by induction on fuel and tokens, decimal round trip) + regenerated constants + in-Coq differential correspondence",
        design="5/C15",
    ),
    "C03": dict(
        text="Theorems (Props/C03.v): the catalogue regenerated from the 134 class files and functions.yaml is consistent - unique (S,F), every SFDL text "
             "accepted, classes = YAML on flags and structure tokens, primary/secondary pairing, reply flags and directions (C03_catalogue_consistent, decided by "
             "evaluation over the finite table on every run); for every function of a table with unique (S,F) and EVERY conforming value the body is the E5 "
             "encoding and decoding by stream/function alone returns the same class with the value (C03_roundtrip, corollary of C01's unbounded round trip and the "
             "lookup lemma; C03_header_only). Tied to the code by differential execution over all functions with values generated from their own structures.",
        note=NOTE_COMMON + " 'plain values read back unchanged' is covered through the get() comparison of the correspondence, not by a separate theorem.",
        technique="Rocq proof (finite-table evaluation + corollary of the C01 round trip) + translator-regenerated catalogue/data items + in-Coq differential correspondence",
        design="5/C03",
    ),
    "C05": dict(
        text="Theorems (Props/C05.v), for every history: the model of HsmsProtocol's session handling (over the connection state machine regenerated from "
             "connection_state_machine.py and run by the engine model) refines an independent E37 reference step by step from every reachable state "
             "(C05_step_refines_e37, C05_state_follows_e37: same state, same frames, deliveries and resolved requesters); every Select/Deselect/Linktest "
             "request in a connected state gets exactly one answer, the matching response with its system bytes or a Reject while closing "
             "(C05_requests_answered); data while not SELECTED: one Reject reason 4, no delivery, no change (C05_data_gate); well-formed data while SELECTED "
             "delivered (C05_data_delivered); the state is always one of the three (C05_three_states). Separate.req is refuted (C05_separate_refuted, known "
             "finding). Tied to the code by driving a real HsmsProtocol with its own threads through random/directed histories in passive and active mode. A data message answers an open DATA transaction only: with the system bytes of an open Select / Deselect / Linktest request it is delivered to the application (C05_data_delivered, D77). HsmsProtocol.__handle_hsms_requests and the handlers it calls are translated statement by statement on every run (Gen/HsmsCtrl.v); for every control message in every state the model's step is the translated list of actions carried out (C05_control_code_is_model).",
        note=NOTE_COMMON + " Partial on 'schedules': the accept-path ordering (state entered before the receive threads start) is checked by a directed history "
             "with a Select.req already buffered, not proven over thread interleavings; T5-T8 timers are outside the model.",
        technique="Rocq proof (step simulation + invariant over all histories) + translator-regenerated state machine + in-Coq differential correspondence on a threaded rig",
        design="5/C05",
    ),
    "C06": dict(
        text="Theorems (Props/C06.v): get_next_system_counter is translated statement by statement into the shared-memory operations other threads can observe, with whether "
             "the body is inside one lock (harness/gen_alloc.py -> Gen/Alloc.v; C06_allocator_as_translated). For ANY number of threads and ANY schedule with fewer than 2^32 "
             "allocations, two threads that obtained system bytes hold different ones (C06_system_bytes_distinct: invariant over all schedules + injectivity of next^i modulo "
             "2^32); the same operations without the lock admit a schedule where two threads get the same value (C06_unlocked_race). A waiting requester receives exactly the "
             "first arrival without W-bit that carries its system bytes, for every arrival sequence (C06_reply_to_requester), and all other messages - primaries of the peer with "
             "the same system bytes included (D49) - reach the application exactly once in arrival order (C06_others_in_order). The hand-over to the dispatcher thread, with the loop shape harness/gen_dispatcher.py reads off the source (trigger cleared before the "
             "queue is drained): under every interleaving of queueing (put, set) and dispatcher steps no block is left queued with the dispatcher asleep and nobody about to wake "
             "it, and blocks are conserved (C06_dispatcher_no_lost_wakeup, C06_dispatcher_conserves_blocks; clearing after the drain strands a block: C06_clear_after_drain_strands). "
             "Across stop()/start(): a new dispatcher thread joins the thread that is inside a callback (read off the source by gen_dispatcher), so for every order of restarts, "
             "dispatcher steps and returns never two callbacks run at a time (C06_one_callback_at_a_time; without the wait they do: C06_no_wait_overlaps); what is still queued when "
             "the link is lost is discarded (C06_stop_discards_queued_refuted, known finding C06-queued-at-link-loss). "
             "The implementation is searched for failing schedules (every single preemption point at bytecode granularity), driven with concurrent requesters, bursts, reconnects "
             "(also in the middle of a message), a block forced to arrive exactly at the dispatcher's empty check, data messages carrying the system bytes of an unanswered linktest / of a request that timed out, "
             "primaries of the peer that carry the system bytes of outstanding requests, and a handler that calls disable(), enable() and keeps running. The hand-over decision Protocol._deliver_message is regenerated on every run (harness/gen_handover.py -> Gen/HandOver.v); over it, for every schedule of the receiver thread, the dispatcher thread and a requester that may give up at any moment, only the dispatcher thread hands messages to the application, in arrival order, and every arrival is handed over exactly once (C06_only_the_dispatcher_hands_over, C06_handed_over_exactly_once; the decision before D78 refuted: C06_before_D78_refuted). The steps of send_and_waitfor_response are regenerated on every run (Gen/Request.v); for any number of calls of a thread and any arrivals, timeouts and failing sends, a call returns nothing or the message with its own system bytes (C06_a_call_returns_its_own_reply; registration behind the send and a re-used waiter refuted: C06_request_steps_refuted).",
        note=NOTE_COMMON + " Partial on 'interleavings': a locked body is ONE atomic step of the model (threading.Lock's mutual exclusion and the atomicity of a single attribute "
             "load/store under the GIL are trusted); 'one at a time' within one connection rests on there being one dispatcher thread per generation (observed: thread count, "
             "overlap of callbacks), across connections on the generations model (an abstraction written by hand, tied by two translator flags and the forced scenario); timers are outside.",
        technique="Rocq proof (invariant over all schedules of an interleaving model, arithmetic modulo 2^32, list induction for routing) + Python-ast translator + schedule search on the implementation + in-Coq differential correspondence",
        design="5/C06",
    ),
    "C07": dict(
        text="Theorems (Props/C07.v): for EVERY history of enable/disable, link selected/lost, S1F13, S1F14 (any COMMACK, readable or not), other messages and timer expiries "
             "the model of GemHandler's communication handling (over the communication machine regenerated from communication_state_machine.py, run by the engine model) takes "
             "only steps an independent E30 reference admits (C07_history_refines_e30; one-step refinement decided over the finite state space x event alphabet, COMMACK "
             "shown to matter only as zero/non-zero, lifted by induction); COMMUNICATING only after an accepting exchange on the current link "
             "(C07_established_only_after_exchange, ghost-flag invariant over all histories); link loss and disable leave it; refused, unreadable and unanswered attempts go "
             "to WAIT DELAY and are retried with a new S1F13 (C07_attempt_retried); a request of the peer is answered - and, accepted, establishes - in WAIT DELAY as in WAIT CRA "
             "(C07_request_answered_in_wait_delay, D66), a denied one or one whose S1F14 cannot be sent does not (C07_denied_request_does_not_establish, "
             "C07_unanswerable_request_does_not_establish); nothing reaches the application while not COMMUNICATING. The gate in front of every received message, GemHandler._on_message_received, is translated statement by statement on every run (Gen/GemGate.v) and the model is proved to treat S1F13, S1F14 and every other message as it says, in every state (C07_gate_code_is_model).",
        note=NOTE_COMMON + " Timers are modelled as events (the rig replaces threading.Timer inside communication_state_machine by timers it fires); real-time bounds and a timer "
             "firing concurrently with a message are not explored. The handler gate (_on_message_received) is hand-modelled.",
        technique="Rocq proof (finite-state refinement lifted by induction, ghost-state invariant) + translator-regenerated state machine + in-Coq differential correspondence with controlled timers",
        design="5/C07",
    ),
    "C08": dict(
        text="Theorems (Props/C08.v) over the callback tables that harness/gen_callbacks.py regenerates from the GEM handler classes (every _on_sXXfYY of the equipment and host "
             "class hierarchies with the ways it can finish, read off its return statements): every way a shipped callback returns is the secondary (same stream, function+1), "
             "possibly sent by the callback itself with everything after it guarded (C08_shipped_callbacks, decided over the finite tables); hence for ALL stream/function "
             "numbers, registered or not, and every way the callback can finish including an exception, a primary with W-bit gets exactly one reply - secondary, SxF0 or S9F5 "
             "(C08_answered_exactly_once), and so for ANY table of registered callbacks whose ways of returning are the secondary - also user callbacks on streams without an SxF0 in the "
             "regenerated catalogue, where a failing callback is answered S9F5 (C08_any_registered_callbacks); without W-bit the handler is silent exactly when nothing is registered (C08_no_wbit_silent_iff), which refutes the statement's last "
             "sentence (C08_reply_without_wbit_refuted, known finding). Tied to the code by sending generated, empty and garbage bodies to real handlers in both roles. The dispatch itself (SecsHandler._handle_stream_function / _handle_unknown_functions) is read from the source on every run (Gen/SecsDispatch.v) and the model's replies are proved to be that decision carried out, for every table, message and outcome of the callback (C08_dispatch_code_is_model).",
        note=NOTE_COMMON + " The dispatch function itself (_handle_stream_function) and 'replies use message.header.system' are hand-modelled and tied by correspondence; which "
             "bodies make a callback raise is not modelled (every outcome is quantified over instead).",
        technique="Rocq proof (universal statement over regenerated finite callback tables) + Python-ast translator + in-Coq differential correspondence on real handlers",
        design="5/C08",
    ),
    "C09": dict(
        text="Theorems (Props/C09.v) about the endpoint model (receive path feeding the session handling): for EVERY connected state and whatever bytes have arrived, ending the "
             "connection leaves NOT CONNECTED, an empty receive buffer and a cleared closing flag (C09_close_cleans); from every such state the next connection parses the "
             "Select.req as its first message and answers it, ending SELECTED (C09_reusable_after_close: no stale bytes); a valid stream cut at ANY byte offset delivers exactly "
             "the messages that arrived completely, nothing partial, nothing dropped (C09_prefix_delivers_whole, by induction over the stream); one run of _process_send_queue, as "
             "harness/gen_sendqueue.py reads it off the source, resolves every queued block whatever the writes do, so the Separate.req of the disconnect handling is never stranded "
             "(C09_send_queue_drained; the pre-D32 shape strands: C09_send_queue_return_strands). Tied to the code by cutting streams at every offset on the in-memory rig and over "
             "real loopback sockets, each library call under a deadline so that a hang is a violation; plus directed schedules that the load tests turned up (D35-D38): disable() "
             "while a peer connects / while the active side's attempt succeeds / racing with the peer's close, a slow application handler for 'disconnected' while the peer is back "
             "at once, an active endpoint reconnecting with its Select.req open, application threads with failing sends while the peer closes. The framing loop HsmsProtocol._process_received_data is translated statement by statement on every run (Gen/RxLoop.v) and proved equal to the model's drain for every buffer (C09_receive_loop_code_is_model). HsmsProtocol._on_connected / _on_disconnecting / _on_disconnected are read statement by statement on every run (Gen/Lifecycle.v): carried out on the model's state they are the model's connect and close steps, in the orders the repairs established (C09_lifecycle_code_is_model, C09_lifecycle_orders).",
        note=NOTE_COMMON + " Partial: that the disconnect handling and disable() RETURN is runtime behaviour no Gallina model exhibits - it is observed (deadlines, live threads, send queue), "
             "not proven; the theorems cover the state the endpoint is left in and the send queue. Forced interleavings wrap a thread object's is_alive() or one attribute read; "
             "everything else in those rounds is the real connection code on loopback TCP.",
        technique="Rocq proof (invariant + induction over streams on the composed receive/session model) + in-Coq differential correspondence over all cut offsets + loopback-socket runs under deadlines",
        design="5/C09",
    ),
    "C10": dict(
        text="Theorems (Props/C10.v): TcpConnection.send_data's loop, as harness/gen_send.py reads it off the source (it advances by the count send() returns: "
             "C10_send_loop_as_translated), against a socket that answers every send() call arbitrarily (takes n >= 1 bytes, would block, fails): whenever success is reported the "
             "socket has taken exactly the message - complete, once, in order (C10_success_means_complete, for all messages and all answer sequences); otherwise what was taken is a "
             "prefix and success is not reported (C10_otherwise_prefix); the same for a block cut into packets of any size (C10_block_success_complete); a loop that treats one "
             "accepted send() as 'all sent' is refuted (C10_oneshot_refuted). Tied to the code by running send_data against scripted sockets and by real loopback transfers up "
             "to 4 MiB with small socket buffers and three receiver pacings. One message, one connection: the socket is looked up once per message (regenerated flag); whenever the connection is replaced between two send() calls the following connection gets no byte of the message and success still means the first one took all of it (C10_message_stays_on_its_connection; the code before D79 refuted).",
        note=NOTE_COMMON + " Partial: the kernel's TCP (what the socket took is what the peer reads, in order) is trusted; the busy wait for writability (a peer that never reads keeps "
             "send_data waiting rather than failing) and the receiving side's recv loop are outside the model.",
        technique="Rocq proof (induction over arbitrary socket behaviours) + Python-ast shape translator + in-Coq differential correspondence on scripted sockets + loopback transfers",
        design="5/C10",
    ),
    "C17": dict(
        text="Theorems (Props/C17.v) about the SECS-I line model over the block codec of C16 and the line characters regenerated from secsi/protocol.py: the receiving side consumes "
             "bytes, so the chunking of the line cannot matter (C17_chunking_irrelevant); EVERY valid block (any header, 0-244 data bytes), announced by ENQ, in any chunking: EOT, "
             "delivered exactly once with identical header and data, ACK (C17_valid_block_received, from the unbounded block round trip); one changed byte anywhere behind the "
             "length byte: EOT, NAK, nothing delivered (C17_corrupted_block_refused, from C16's corruption theorem); sender and receiver together, a message of any number of "
             "blocks: ENQ/EOT/block/ACK per block, all delivered once in order, the call succeeds (C17_dialog_delivers); the sending side succeeds exactly when every block is "
             "acknowledged (C17_sender, C17_sender_nak_fails) and starts a block only after EOT, whatever else the peer answers to ENQ (C17_block_only_after_eot, C17_block_follows_eot; D50); a changed LENGTH byte is not answered with NAK (C17_length_byte_refuted, known finding C17-length-byte: the receiver waits, "
             "the library has no timers). The harness also plays a failed attempt followed by the sender's next attempt with the same system bytes (D33). The step sequences of one send round and one receive round are regenerated from the source on every run (Gen/SecsILine.v) and must be the ones the byte machine is written for (C17_line_rounds_as_translated, a shape obligation).",
        note=NOTE_COMMON + " Partial: contention (both sides sending ENQ), the T1-T4 timers the library does not implement and the serial driver are outside; wait_for is modelled as "
             "accumulation of bytes; what the receiver makes of the bytes left behind a block whose length byte was lowered depends on when it is triggered again (compared with the "
             "specification only).",
        technique="Rocq proof (byte-level machine, corollaries of the C16 codec theorems, induction over blocks) + translator-regenerated constants + in-Coq differential correspondence on a real SecsIProtocol",
        design="5/C17",
    ),
    "C11": dict(
        text="Theorems (Props/C11.v): for each of the 8 configured defaults and EVERY history of operator switches, S1F15/S1F17 and event enable/disable, the "
             "model's control state is E30's, what it sends (S1F1 probe, S1F16/S1F18 with the code, collection events when enabled) is among what E30 admits and "
             "SVID ControlState equals the state (C11_state_refines_e30: one-step refinement decided by evaluation over the finite stable state space x operations, "
             "lifted to histories by induction); ONLACK 0/1/2 and OFLACK 0 with exactly one reply (C11_ack_codes); refused operator requests change nothing. The "
             "model interprets programs that harness/gen_control.py regenerates from control_state_machine.py and state_models_capability.py (forwarders, public "
             "methods with their statement order, S1F15/S1F17 handlers, called-event registrations, _get_control_state_id) over the regenerated transition table.",
        note=NOTE_COMMON + " Hand-modelled and tied by correspondence only: the attempt-online probe handler, S2F37, exception -> SxF0, the engine. Requests arriving "
             "while the operator's probe is outstanding (a schedule) are not explored.",
        technique="Rocq proof (finite-state evaluation lifted by induction over histories) + translator-regenerated control programs and machine + in-Coq differential correspondence on a real handler",
        design="5/C11",
    ),
    "C12": dict(
        text="Theorems (Props/C12.v), for every history and every id domain: integrity (every linked report exists; C12_integrity, by invariant over all operation "
             "sequences), S6F15 never aborts in a reachable configuration (C12_request_never_aborts), the report of a linked enabled event is exactly its linked "
             "reports in link order with the current values and S6F15 = S6F11 (C12_report_wellformed), a refused S2F33/S2F35 changes nothing "
             "(C12_refused_changes_nothing), and every S2F33/S2F35 step - accepted or refused, delete-one and delete-all forms included - is one an independent E5 "
             "reference admits (C12_accepted_effect: the pre-check loops 'as written' are shown equivalent to E5's validity conditions, the apply loops to E5's "
             "entry-wise effect). Tied to the code by driving a real equipment handler through random and directed histories and comparing replies and both dicts.",
        note=NOTE_COMMON + " S2F37 with a listed CEID set is covered by the invariant theorems and the correspondence, not by C12_accepted_effect; the whole model is hand-written "
             "(no translator for this file).",
        technique="Rocq proof (invariant + refinement of an E5 reference, unbounded ids and histories) + in-Coq differential correspondence on a real handler",
        design="5/C12",
    ),
    "C13": dict(
        text="Theorems (Props/C13.v), for every table with unique ids and every request: the S1F4/S1F12/S2F14/S2F30/S5F6/S5F8 replies, the S2F16/S5F4 codes, the "
             "S5F1 reports of set_alarm/clear_alarm and the new tables are those of an independent E5 reference (C13_replies_as_reference: requested items in request "
             "order, all for an empty request, empty item for unknown ids; S5F1 exactly on set/clear changes of enabled alarms); S2F15 is all-or-nothing "
             "(C13_s2f15_all_or_nothing), answers EAC 0 exactly when every id is known and every value is within its range, NaN excluded "
             "(C13_s2f15_accepts_iff_valid: the 'last error wins' loop as written against E5's condition), and after any history no constant is outside its declared "
             "min/max (C13_ec_in_range, invariant over all histories); S5F5 is never aborted and has one row per requested ALID, zero-length ALCD/ALTX for an alarm that does not "
             "exist (C13_s5f5_lists_requested, D48); the AlarmsEnabled / AlarmsSet status variables list exactly the alarms enabled / set (C13_alarm_status_variables). Tied to the code by driving a real equipment handler and comparing replies and tables. set_alarm / clear_alarm are read statement by statement on every run (Gen/Alarms.v) and the model's steps are proved to be these sequences carried out - the state changes before the report (C13_alarm_code_is_model).",
        note=NOTE_COMMON + " Outside the modelled domain: values of a type other than the constant's (accepted by the library and fatal for later S2F13 - noted in DESIGN.md), "
             "the predefined SVIDs 1001-1005 / ECIDs 1-2 with their special cases, unknown ALIDs in S5F5 (the library aborts). The model is hand-written.",
        technique="Rocq proof (refinement of an E5 reference + invariant over histories, unbounded ids/values) + in-Coq differential correspondence on a real handler",
        design="5/C13",
    ),
}

CLAIMED["C20"] = dict(
    text="Theorems (Props/C20.v) about the pair model - the session model of C05 and the communication model of C07 on both ends of two FIFO channels, over the regenerated "
         "machines: the reachable states under enabling, disabling, connecting and deliveries in ANY order are enumerated, the enumeration is proven closed under every event "
         "(C20_reachable_complete), and on each state the claim is decided: after any history, as soon as both sides are enabled, every order of the remaining deliveries ends "
         "within 16 steps with both sides SELECTED and COMMUNICATING - both enable orders, both roles, every disable/enable cycle (C20_both_reach_communicating); COMMUNICATING "
         "implies SELECTED. Tied to the code by running a real host and a real equipment handler against each other with randomly segmented and paced byte streams and checking that "
         "what they put on the wire is a trace of the model; the service calls, events exactly once and re-establishment are checked on the pair of real handlers.",
    note=NOTE_COMMON + " Partial: 'returns what the equipment holds' and 'every event reaches the host exactly once' are established per endpoint by C12/C13/C06/C08 and observed end to end "
         "here, not proven for the composition; timers (T3/T5-T8, linktest, establish delay) and byte-level segmentation are not in the pair model (C04/C09 cover segmentation).",
    technique="Rocq proof (exhaustive exploration of a finite composed model, closure proven, claim decided per state) + translator-regenerated machines + trace correspondence on two real handlers",
    design="5/C20",
)

NOT_YET = {}


def main():
    with open(os.path.join(VERIF, "properties.jsonl"), encoding="utf-8") as handle:
        props = [json.loads(line) for line in handle if line.strip()]
    checks = []
    na = []
    for p in props:
        pid = p["id"]
        if pid in CLAIMED:
            c = CLAIMED[pid]
            checks.append({
                "property_id": pid,
                "quick_cmd": f"./check {pid} --tier quick",
                "thorough_cmd": f"./check {pid} --tier thorough",
                "evidence_file": f"/verif/evidence/{pid}.json",
                "replay_cmd_template": f"./check {pid} --replay {{path}}",
                "engine": "rocq",
                "level_claimed": {"category": "proof", "text": c["text"], "design_ref": c["design"]},
                "level_note": c["note"],
                "technique": c["technique"],
            })
        else:
            na.append({"property_id": pid, "reason": NOT_YET.get(pid, "not claimed yet: model and theorems for this property are not built in this revision (see DESIGN.md status table)")})
    doc = {
        "version": 1,
        "setup_cmd": "./setup.sh",
        "hooks": {
            "guard": "SECSGEM_VERIF",
            "enable": "no source hooks: the rigs use public extension points only; checks import /repo's working tree directly (PYTHONPATH=/repo)",
            "baseline_off_cmd": "cd /repo && /venv/bin/python -m pytest -ra -q -p no:cacheprovider --timeout=900 --continue-on-collection-errors",
            "source_commits": [],
            "add_only": True,
        },
        "engines": [{"name": "rocq", "path": "/verif/coq", "serves_properties": sorted(CLAIMED), "kind_free_text": "Coq 8.16.1 project: Spec/ (independent specifications), Model/ (executable models of the code), Gen/ (regenerated from source), Proofs/, Props/ (property theorems), Run/ (correspondence glue evaluated by vm_compute)"}],
        "checks": checks,
        "not_applicable": na,
        "notes": "All checks: ./check <id> --tier quick|thorough. Known findings: /verif/known_findings.json. Seeded changes: /verif/seeded/.",
    }
    with open(os.path.join(VERIF, "MANIFEST.json"), "w", encoding="utf-8") as handle:
        json.dump(doc, handle, indent=1)
    print("MANIFEST.json:", len(checks), "claimed,", len(na), "not claimed")


if __name__ == "__main__":
    main()
