"""Translator: SecsHandler._handle_stream_function and _handle_unknown_functions -> coq/Gen/SecsDispatch.v (fail-closed).

What the handler sends for one inbound message, statement by statement:

    name = self._generate_sf_callback_name(stream, function)
    if name not in self._callback_handler: self._handle_unknown_functions(message); return         no callback: the unknown-function answer
    try:
        callback = getattr(self._callback_handler, name); result = callback(self, message)
        if result is not None: self.send_response(result, message.header.system)                   DSendResult
    except Exception:
        try: abort = self.stream_function(message.header.stream, 0)
        except KeyError: self._handle_unknown_functions(message); return                           no SxF0 in the catalogue: the unknown-function answer
        self.send_response(abort(), message.header.system)                                         DSendAbort

    _handle_unknown_functions:  if message.header.require_response: self.send_response(self.stream_function(9, 5)(message.header.encode()), system)     DSendS9F5

emitted as  secs_dispatch (registered raised result_none abort_known w : bool) : list disp_act.  Every response is sent with message.header.system
(checked).  Proofs/SecsDispatchProofs.v proves Model/Dispatch.v's `dispatch` equal to it for every table, message and outcome of the callback.
"""
from __future__ import annotations

import ast
import os
import sys

from astutil import GEN_DIR, TranslationError, find_class, find_method, parse, write_if_changed

REL = "secsgem/secs/handler.py"


def chain(node):
    out = []
    while isinstance(node, ast.Attribute):
        out.append(node.attr)
        node = node.value
    if isinstance(node, ast.Name):
        out.append(node.id)
    return ".".join(reversed(out))


def is_call(node, name):
    return isinstance(node, ast.Call) and chain(node.func) == name


def strip(stmts):
    return [s for s in stmts if not (isinstance(s, ast.Expr) and isinstance(s.value, ast.Constant))
            and not (isinstance(s, ast.Expr) and isinstance(s.value, ast.Call) and (chain(s.value.func).startswith("self.logger.") or chain(s.value.func).startswith("self._logger.")))]


def unknown_then_return(stmts):
    s = strip(stmts)
    return (len(s) == 2 and isinstance(s[0], ast.Expr) and is_call(s[0].value, "self._handle_unknown_functions") and chain(s[0].value.args[0]) == "message"
            and isinstance(s[1], ast.Return) and s[1].value is None)


def sends_with_system(call):
    return is_call(call, "self.send_response") and len(call.args) == 2 and chain(call.args[1]) == "message.header.system"


def generate() -> str:
    cls = find_class(parse(REL), "SecsHandler", REL)
    # _handle_unknown_functions
    unk = strip(find_method(cls, "_handle_unknown_functions").body)
    ok = (len(unk) == 1 and isinstance(unk[0], ast.If) and not unk[0].orelse and chain(unk[0].test) == "message.header.require_response" and len(unk[0].body) == 1
          and isinstance(unk[0].body[0], ast.Expr) and sends_with_system(unk[0].body[0].value))
    if ok:
        fn = unk[0].body[0].value.args[0]
        ok = (isinstance(fn, ast.Call) and is_call(fn.func, "self.stream_function") and [getattr(a, "value", None) for a in fn.func.args] == [9, 5]
              and len(fn.args) == 1 and is_call(fn.args[0], "message.header.encode"))
    if not ok:
        raise TranslationError(f"{REL}: _handle_unknown_functions is not `if W-bit: send S9F5(header) with the message's system bytes`")
    unknown = "(if w then [DSendS9F5] else [])"
    # _handle_stream_function
    what = f"{REL}: _handle_stream_function"
    body = strip(find_method(cls, "_handle_stream_function").body)
    if len(body) != 3:
        raise TranslationError(f"{what}: three statements expected (name, no-callback branch, try)")
    name, nocb, tr = body
    if not (isinstance(name, ast.Assign) and is_call(name.value, "self._generate_sf_callback_name") and [chain(a) for a in name.value.args] == ["message.header.stream", "message.header.function"]):
        raise TranslationError(f"{what}: the callback name")
    nm = name.targets[0].id
    if not (isinstance(nocb, ast.If) and not nocb.orelse and isinstance(nocb.test, ast.Compare) and chain(nocb.test.left) == nm and isinstance(nocb.test.ops[0], ast.NotIn)
            and chain(nocb.test.comparators[0]) == "self._callback_handler" and unknown_then_return(nocb.body)):
        raise TranslationError(f"{what}: the branch for a message without callback")
    if not (isinstance(tr, ast.Try) and len(tr.handlers) == 1 and chain(tr.handlers[0].type) == "Exception" and not tr.orelse and not tr.finalbody):
        raise TranslationError(f"{what}: try / except Exception expected")
    tb = strip(tr.body)
    ok = (len(tb) == 3 and isinstance(tb[0], ast.Assign) and is_call(tb[0].value, "getattr") and chain(tb[0].value.args[0]) == "self._callback_handler" and chain(tb[0].value.args[1]) == nm
          and isinstance(tb[1], ast.Assign) and isinstance(tb[1].value, ast.Call) and chain(tb[1].value.func) == tb[0].targets[0].id
          and [chain(a) for a in tb[1].value.args] == ["self", "message"]
          and isinstance(tb[2], ast.If) and not tb[2].orelse and isinstance(tb[2].test, ast.Compare) and chain(tb[2].test.left) == tb[1].targets[0].id
          and isinstance(tb[2].test.ops[0], ast.IsNot) and getattr(tb[2].test.comparators[0], "value", 0) is None and len(tb[2].body) == 1
          and isinstance(tb[2].body[0], ast.Expr) and sends_with_system(tb[2].body[0].value) and chain(tb[2].body[0].value.args[0]) == tb[1].targets[0].id)
    if not ok:
        raise TranslationError(f"{what}: the try body is not `call the callback; if result is not None: send_response(result, system)`")
    hb = strip(tr.handlers[0].body)
    ok = (len(hb) == 2 and isinstance(hb[0], ast.Try) and len(hb[0].handlers) == 1 and chain(hb[0].handlers[0].type) == "KeyError" and unknown_then_return(hb[0].handlers[0].body)
          and len(strip(hb[0].body)) == 1 and isinstance(strip(hb[0].body)[0], ast.Assign) and is_call(strip(hb[0].body)[0].value, "self.stream_function")
          and chain(strip(hb[0].body)[0].value.args[0]) == "message.header.stream" and getattr(strip(hb[0].body)[0].value.args[1], "value", None) == 0
          and isinstance(hb[1], ast.Expr) and sends_with_system(hb[1].value) and isinstance(hb[1].value.args[0], ast.Call)
          and chain(hb[1].value.args[0].func) == strip(hb[0].body)[0].targets[0].id)
    if not ok:
        raise TranslationError(f"{what}: the except branch is not `look SxF0 up (KeyError: unknown-function answer); send it with the message's system bytes`")
    return "\n".join(["(* GENERATED by harness/gen_dispatch.py from SecsHandler._handle_stream_function and _handle_unknown_functions - do not edit. *)",
                      "From SG Require Import Base.Prelude.", "",
                      "Inductive disp_act := DSendResult | DSendAbort | DSendS9F5.", "",
                      "(* registered: a callback exists; raised: an exception escapes the callback (or the sending of its result); result_none: the callback returned None;",
                      "   abort_known: the catalogue has SxF0 for the message's stream; w: the W-bit.  Every response carries message.header.system. *)",
                      "Definition secs_dispatch (registered raised result_none abort_known w : bool) : list disp_act :=",
                      f"  if negb registered then {unknown}",
                      f"  else if raised then (if abort_known then [DSendAbort] else {unknown})",
                      "  else if negb result_none then [DSendResult] else [].", ""])


if __name__ == "__main__":
    try:
        changed = write_if_changed(os.path.join(GEN_DIR, "SecsDispatch.v"), generate())
        print(f"gen_dispatch: {'updated' if changed else 'unchanged'}")
    except TranslationError as exc:
        print(f"TRANSLATION-ERROR gen_dispatch: {exc}")
        sys.exit(3)
