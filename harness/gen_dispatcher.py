"""Translator: ProtocolDispatcher._dispatcher_thread_function -> coq/Gen/Dispatcher.v (fail-closed).

Recognises the dispatcher loop: an outer while loop whose body waits for the trigger event, clears it and drains the dispatch
queue in an inner while loop (`... qsize() > 0`).  Emitted: whether the trigger is cleared BEFORE the queue is drained (then a block
queued while draining leaves the trigger set and causes another round) or AFTER it (then such a block's trigger is wiped).
"""
from __future__ import annotations

import ast
import os
import sys

from astutil import GEN_DIR, TranslationError, find_class, find_method, parse, write_if_changed

REL = "secsgem/common/protocol_dispatcher.py"


def is_trigger_call(st, method):
    return (isinstance(st, ast.Expr) and isinstance(st.value, ast.Call) and isinstance(st.value.func, ast.Attribute) and st.value.func.attr == method
            and isinstance(st.value.func.value, ast.Attribute) and st.value.func.value.attr == "_dispatcher_thread_trigger")


def generate() -> str:
    cls = find_class(parse(REL), "ProtocolDispatcher", REL)
    fn = find_method(cls, "_dispatcher_thread_function")
    loops = [n for n in fn.body if isinstance(n, ast.While)]
    if len(loops) != 1:
        raise TranslationError(f"{REL}: _dispatcher_thread_function: one top-level while loop expected")
    body = loops[0].body
    waits = [i for i, st in enumerate(body) if is_trigger_call(st, "wait")]
    clears = [i for i, st in enumerate(body) if is_trigger_call(st, "clear")]
    drains = [i for i, st in enumerate(body) if isinstance(st, ast.While) and "qsize" in ast.dump(st.test)]
    if len(waits) != 1 or len(clears) != 1 or len(drains) != 1:
        raise TranslationError(f"{REL}: _dispatcher_thread_function: exactly one trigger.wait(), one trigger.clear() and one drain loop expected in the outer loop")
    if any(is_trigger_call(n, "clear") or is_trigger_call(n, "set") for st in body[drains[0]].body for n in ast.walk(st) if isinstance(n, ast.Expr)):
        raise TranslationError(f"{REL}: _dispatcher_thread_function: the trigger is touched inside the drain loop")
    # between them only guards that go back to the loop head (`if ...: continue`) are allowed
    for i, st in enumerate(body):
        if i in waits + clears + drains:
            continue
        if not (isinstance(st, ast.If) and len(st.body) == 1 and isinstance(st.body[0], ast.Continue) and not st.orelse):
            raise TranslationError(f"{REL}: _dispatcher_thread_function: unrecognised statement in the loop: {ast.dump(st)[:80]}")
    if not waits[0] < min(clears[0], drains[0]):
        raise TranslationError(f"{REL}: _dispatcher_thread_function: the loop does not start with the wait")
    before = clears[0] < drains[0]
    # the drain loop takes one entry per round and hands it to the target
    gets = [n for n in ast.walk(body[drains[0]]) if isinstance(n, ast.Call) and isinstance(n.func, ast.Attribute) and n.func.attr == "get"]
    if len(gets) != 1:
        raise TranslationError(f"{REL}: _dispatcher_thread_function: one queue.get() per round of the drain loop expected")
    # does the thread of a new generation wait for a callback that is still running?  Recognised, before the loop:
    #     busy = self._dispatching_thread
    #     if busy is not None: busy.join()
    # and in stop(): the join of the dispatcher thread is guarded by `self._dispatching_thread is None` (nobody joins a thread
    # that is inside a callback or waits for one)
    waits_busy = False
    pre = []
    for st in fn.body:
        if st is loops[0]:
            break
        pre.append(st)
    for a, b in zip(pre, pre[1:]):
        if (isinstance(a, ast.Assign) and len(a.targets) == 1 and isinstance(a.targets[0], ast.Name) and isinstance(a.value, ast.Attribute)
                and a.value.attr == "_dispatching_thread" and isinstance(b, ast.If) and len(b.body) == 1 and not b.orelse
                and isinstance(b.test, ast.Compare) and isinstance(b.test.left, ast.Name) and b.test.left.id == a.targets[0].id
                and len(b.test.ops) == 1 and isinstance(b.test.ops[0], ast.IsNot) and isinstance(b.test.comparators[0], ast.Constant) and b.test.comparators[0].value is None):
            call = b.body[0]
            if (isinstance(call, ast.Expr) and isinstance(call.value, ast.Call) and isinstance(call.value.func, ast.Attribute) and call.value.func.attr == "join"
                    and isinstance(call.value.func.value, ast.Name) and call.value.func.value.id == a.targets[0].id and not call.value.args and not call.value.keywords):
                waits_busy = True
    stop = find_method(cls, "stop")
    stop_guarded = False
    for n in ast.walk(stop):
        if isinstance(n, ast.If) and any(isinstance(c, ast.Expr) and isinstance(c.value, ast.Call) and isinstance(c.value.func, ast.Attribute) and c.value.func.attr == "join"
                                          and isinstance(c.value.func.value, ast.Attribute) and c.value.func.value.attr == "_dispatcher_thread" for c in n.body):
            conds = n.test.values if isinstance(n.test, ast.BoolOp) and isinstance(n.test.op, ast.And) else [n.test]
            for c in conds:
                if (isinstance(c, ast.Compare) and isinstance(c.left, ast.Attribute) and c.left.attr == "_dispatching_thread" and len(c.ops) == 1
                        and isinstance(c.ops[0], ast.Is) and isinstance(c.comparators[0], ast.Constant) and c.comparators[0].value is None):
                    stop_guarded = True
    waits_prev = waits_busy and stop_guarded
    return "\n".join(["(* GENERATED by harness/gen_dispatcher.py from ProtocolDispatcher._dispatcher_thread_function — do not edit. *)",
                      "From SG Require Import Base.Prelude.", "",
                      f"Definition dispatcher_clears_before_drain : bool := {'true' if before else 'false'}.",
                      "(* a new dispatcher thread joins the thread that is inside a callback before it dispatches anything, and stop() joins no thread while a callback runs *)",
                      f"Definition dispatcher_waits_for_previous : bool := {'true' if waits_prev else 'false'}.", ""])


if __name__ == "__main__":
    try:
        changed = write_if_changed(os.path.join(GEN_DIR, "Dispatcher.v"), generate())
        print(f"gen_dispatcher: {'updated' if changed else 'unchanged'}")
    except TranslationError as exc:
        print(f"TRANSLATION-ERROR gen_dispatcher: {exc}")
        sys.exit(3)
