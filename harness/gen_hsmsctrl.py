"""Translator: HsmsProtocol.__handle_hsms_requests and the five handlers it calls -> coq/Gen/HsmsCtrl.v (fail-closed).

What the endpoint does with an inbound control message is translated statement by statement (the called handlers are inlined) into

    hsms_on_control (stype status : Z) (cur : nat) (closing : bool) (open_as : Z -> bool) (waiting : bool) : list ctl_act

stype / status: SType and the function byte of the message; cur: the connection state; closing: self._connection.disconnecting;
open_as t: self._open_control_requests.get(system) == t; waiting: system in self._response_queues.  Understood:

    if / elif over  message.header.s_type == HsmsSType.X,  self._connection.disconnecting,
                    self._open_control_requests.get(message.header.system) == / != HsmsSType.X,
                    message.header.function == n,  self._connection_state.current == ConnectionState.X,
                    message.header.system in self._response_queues,  and / or / not
    return                                                        (the rest of the handler is not executed)
    self.send_<x>_rsp(message.header.system)                      -> CSend <SType of the header class that method builds>
    self.send_reject_rsp(message.header.system, message.header.s_type, n)   -> CReject n
    self._connection_state.<transition>()                         -> CTransition "<transition>"
    self._response_queues[message.header.system].put_nowait(message)       -> CResolve
    self.__handle_hsms_requests_<x>(message)                      -> the body of that handler
    logging

Proofs/HsmsCtrlProofs.v proves that Model/HsmsSession.v's step for an inbound control message is this list, carried out, for every message and state.
"""
from __future__ import annotations

import ast
import os
import sys

from astutil import GEN_DIR, TranslationError, coq_str, find_class, find_method, lit_int, parse, write_if_changed

REL = "secsgem/hsms/protocol.py"
HDR = "secsgem/hsms/header.py"


def chain(node):
    out = []
    while isinstance(node, ast.Attribute):
        out.append(node.attr)
        node = node.value
    if isinstance(node, ast.Name):
        out.append(node.id)
    return ".".join(reversed(out))


def is_call(node, name):
    return isinstance(node, ast.Call) and chain(node.func) == name


class Ctrl:
    def __init__(self):
        mod = parse(REL)
        self.cls = find_class(mod, "HsmsProtocol", REL)
        st = find_class(parse(HDR), "HsmsSType", HDR)
        self.stypes = {n.targets[0].id: lit_int(n.value, HDR) for n in st.body if isinstance(n, ast.Assign) and isinstance(n.targets[0], ast.Name)}
        self.depth = 0

    def stype(self, node):
        c = chain(node)
        if c.startswith("HsmsSType.") and c.split(".")[1] in self.stypes:
            return self.stypes[c.split(".")[1]]
        raise TranslationError(f"{REL}: control handlers: SType expected: {ast.dump(node)[:80]}")

    def rsp_stype(self, method):
        """the SType of the header a send_<x>_rsp method builds: Hsms<X>RspHeader -> HsmsSType.<X>_RSP"""
        fn = find_method(self.cls, method)
        hdrs = [chain(n.func) for n in ast.walk(fn) if isinstance(n, ast.Call) and chain(n.func).startswith("Hsms") and chain(n.func).endswith("RspHeader")]
        if len(hdrs) != 1:
            raise TranslationError(f"{REL}: {method}: one Hsms<X>RspHeader expected")
        name = hdrs[0][4:-9].upper() + "_RSP"
        if name not in self.stypes:
            raise TranslationError(f"{REL}: {method}: header class {hdrs[0]} has no SType")
        if not any(is_call(n, "self.send_message") for n in ast.walk(fn)):
            raise TranslationError(f"{REL}: {method} does not send its message")
        return self.stypes[name]

    def cond(self, node):
        if isinstance(node, ast.BoolOp):
            return "(" + (" && " if isinstance(node.op, ast.And) else " || ").join(self.cond(v) for v in node.values) + ")"
        if isinstance(node, ast.UnaryOp) and isinstance(node.op, ast.Not):
            return f"(negb {self.cond(node.operand)})"
        if chain(node) == "self._connection.disconnecting":
            return "closing"
        if isinstance(node, ast.Compare) and len(node.ops) == 1:
            left, op, right = node.left, node.ops[0], node.comparators[0]
            if chain(left) == "message.header.s_type" and isinstance(op, ast.Eq):
                return f"(stype =? {self.stype(right)})%Z"
            if is_call(left, "self._open_control_requests.get") and len(left.args) == 1 and chain(left.args[0]) == "message.header.system" and isinstance(op, (ast.Eq, ast.NotEq)):
                t = f"(open_as {self.stype(right)}%Z)"
                return t if isinstance(op, ast.Eq) else f"(negb {t})"
            if chain(left) == "message.header.function" and isinstance(op, ast.Eq) and isinstance(right, ast.Constant) and type(right.value) is int:
                return f"(status =? {right.value})%Z"
            if chain(left) == "self._connection_state.current" and isinstance(op, ast.Eq) and chain(right).startswith("ConnectionState."):
                return f"(cur =? connection_{chain(right).split('.')[1]})%nat"
            if chain(left) == "message.header.system" and isinstance(op, ast.In) and chain(right) == "self._response_queues":
                return "waiting"
        raise TranslationError(f"{REL}: control handlers: condition not understood: {ast.dump(node)[:140]}")

    def block(self, stmts):
        """-> (coq term : list ctl_act, returns?)  returns? = the block always ends the handler"""
        stmts = [s for s in stmts if not (isinstance(s, ast.Expr) and isinstance(s.value, ast.Constant))]
        if not stmts:
            return "[]", False
        st, rest = stmts[0], stmts[1:]
        if isinstance(st, ast.Return) and st.value is None:
            return "[]", True
        if isinstance(st, ast.Expr) and isinstance(st.value, ast.Call) and (chain(st.value.func).startswith("self._communication_logger.") or chain(st.value.func).startswith("self._logger.")):
            return self.block(rest)
        if isinstance(st, ast.If):
            then, tret = self.block(st.body)
            other, oret = self.block(st.orelse) if st.orelse else ("[]", False)
            c = self.cond(st.test)
            if not tret and not oret:
                tail, r = self.block(rest)
                return f"((if {c} then {then} else {other}) ++ {tail})", r
            tail, r = self.block(rest)
            a = then if tret else f"({then} ++ {tail})"
            b = other if oret else f"({other} ++ {tail})"
            return f"(if {c} then {a} else {b})", (tret or r) and (oret or r)
        act = None
        if isinstance(st, ast.Expr) and isinstance(st.value, ast.Call):
            call = st.value
            name = chain(call.func)
            if name == "self.send_reject_rsp" and len(call.args) == 3 and chain(call.args[0]) == "message.header.system" and chain(call.args[1]) == "message.header.s_type" \
                    and isinstance(call.args[2], ast.Constant) and type(call.args[2].value) is int:
                act = f"[CReject {call.args[2].value}%Z]"
            elif name.startswith("self.send_") and name.endswith("_rsp") and len(call.args) == 1 and chain(call.args[0]) == "message.header.system":
                act = f"[CSend {self.rsp_stype(name.split('.')[1])}%Z]"
            elif name.startswith("self._connection_state.") and name.count(".") == 2 and not call.args:
                act = f"[CTransition {coq_str(name.split('.')[2])}]"
            elif (isinstance(call.func, ast.Attribute) and call.func.attr == "put_nowait" and isinstance(call.func.value, ast.Subscript)
                  and chain(call.func.value.value) == "self._response_queues" and chain(call.func.value.slice) == "message.header.system"
                  and len(call.args) == 1 and chain(call.args[0]) == "message"):
                act = "[CResolve]"
            elif name.startswith("self.__handle_hsms_requests_") and len(call.args) == 1 and chain(call.args[0]) == "message":
                if self.depth > 2:
                    raise TranslationError(f"{REL}: control handlers call each other too deeply")
                self.depth += 1
                inner, _ = self.block(find_method(self.cls, name.split(".")[1]).body)
                self.depth -= 1
                act = inner          # a return inside the called handler ends that handler only
        if act is None:
            raise TranslationError(f"{REL}: control handlers: statement not understood: {ast.dump(st)[:140]}")
        tail, r = self.block(rest)
        return f"({act} ++ {tail})", r


def generate() -> str:
    tr = Ctrl()
    fn = find_method(tr.cls, "__handle_hsms_requests")
    if [a.arg for a in fn.args.args] != ["self", "message"]:
        raise TranslationError(f"{REL}: __handle_hsms_requests signature")
    body, _ = tr.block(fn.body)
    return "\n".join(["(* GENERATED by harness/gen_hsmsctrl.py from HsmsProtocol.__handle_hsms_requests and the handlers it calls - do not edit. *)",
                      "From SG Require Import Base.Prelude Gen.Machines.", "Open Scope Z_scope.", "",
                      "Inductive ctl_act := CSend (stype : Z) | CReject (reason : Z) | CTransition (name : string) | CResolve.", "",
                      "(* stype / status: SType and function byte of the message; cur: the connection state; closing: the endpoint is closing the connection;",
                      "   open_as t: a control request of type t of ours is open under the message's system bytes; waiting: somebody waits under these system bytes *)",
                      "Definition hsms_on_control (stype status : Z) (cur : nat) (closing : bool) (open_as : Z -> bool) (waiting : bool) : list ctl_act :=",
                      f"  {body}.", ""])


if __name__ == "__main__":
    try:
        changed = write_if_changed(os.path.join(GEN_DIR, "HsmsCtrl.v"), generate())
        print(f"gen_hsmsctrl: {'updated' if changed else 'unchanged'}")
    except TranslationError as exc:
        print(f"TRANSLATION-ERROR gen_hsmsctrl: {exc}")
        sys.exit(3)
