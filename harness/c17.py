"""C17 — the SECS-I line protocol delivers accepted messages intact, once; NAKs bad blocks."""
from __future__ import annotations

import threading
import time

import common
import protorig

import secsgem.common
import secsgem.secsi
from secsgem.secsi.header import SecsIHeader
from secsgem.secsi.message import SecsIMessage

ENQ, EOT, ACK, NAK = 5, 4, 6, 21


class LineSettings(secsgem.secsi.SecsISettings):
    def create_connection(self):
        self.rig_connection = protorig.MemConnection(self)
        return self.rig_connection


def nl(bs):
    return "[" + ";".join(f"{b}%N" for b in bs) + "]"


def make_rig(host):
    settings = LineSettings(port="line", device_type=secsgem.common.DeviceType.HOST if host else secsgem.common.DeviceType.EQUIPMENT, device_id=1)
    proto = secsgem.secsi.SecsIProtocol(settings)
    rig = protorig.HsmsRig(proto=proto, settings=settings)
    rig.conn.connect()
    rig.settle()
    return rig


def message(rnd, size, system):
    header = SecsIHeader(system, 1, rnd.choice([1, 6, 7, 99]), rnd.choice([1, 3, 11]), rnd.random() < 0.5)
    return SecsIMessage(header, bytes(rnd.randrange(256) for _ in range(size)))


def chunked(rnd, data):
    out, i = [], 0
    while i < len(data):
        n = rnd.choice([1, 1, 2, 3, 7, 20, 100, 1000])
        out.append(data[i:i + n])
        i += n
    return out


def recv_case(rnd, host, nblocks_sizes, corrupt):
    """(delivered = handed to the application by the message_received event, whatever stream/function/body the message has)
    the library receives: ENQ + block bytes fed in arbitrary chunks, the peer waits for EOT / ACK as a real one does"""
    rig = make_rig(host)
    try:
        msgs = [message(rnd, size, 100 + i) for i, size in enumerate(nblocks_sizes)]
        blocks = [b.encode() for m in msgs for b in m.blocks]
        if corrupt is not None:
            blocks = blocks[:1]
            pos = corrupt if corrupt >= 0 else rnd.randrange(1, len(blocks[0]))
            pos = min(pos, len(blocks[0]) - 1)
            bad = bytearray(blocks[0])
            bad[pos] ^= rnd.choice([1, 2, 0x10, 0x80, 0xFF])
            blocks = [bytes(bad)]
        chunks = []
        for blk in blocks:
            start = len(rig.conn.sent)
            rig.conn.feed(bytes([ENQ]))
            chunks.append(bytes([ENQ]))
            if not rig.settle():
                raise common.Wedged("no rest after ENQ")
            slow = rnd.random() < 0.5          # let the receiver block between the pieces
            for ch in chunked(rnd, blk):
                rig.conn.feed(ch)
                chunks.append(ch)
                if slow:
                    rig.settle()
            if not rig.settle():
                raise common.Wedged("no rest after the block")
            del start
        line = b"".join(rig.conn.sent)
        delivered = len(rig.app_messages)
        intact = all(any(d.header.system == m.header.system and d.data == m.data and d.header.stream == m.header.stream and d.header.function == m.header.function for d in rig.app_messages) for m in msgs) if corrupt is None else True
        once = len({d.header.system for d in rig.app_messages}) == len(rig.app_messages)
        nvalid = len(blocks) if corrupt is None else 0
    finally:
        rig.stop()
    # delivered counts messages; the model counts blocks: report blocks for single-block messages, else compare the line only
    single = all(len(m.blocks) == 1 for m in msgs)
    lit = "(LRecv [" + ";".join(nl(c) for c in chunks) + "] " + nl(line) + f" {delivered if single else nvalid}%nat {nvalid}%nat {'true' if corrupt is not None else 'false'})"
    return lit, {"intact": intact, "once": once, "messages": len(msgs), "delivered": delivered, "corrupt": corrupt}


def recv_len_case(rnd, host, size, new_len):
    """one single-block message whose LENGTH byte was changed in transit (to new_len); the rest of the block follows unchanged"""
    rig = make_rig(host)
    try:
        msg = message(rnd, size, 300)
        blk = bytearray(msg.blocks[0].encode())
        old = blk[0]
        blk[0] = new_len(old) % 256
        if blk[0] == old:
            blk[0] = (old + 1) % 256
        chunks = [bytes([ENQ])]
        rig.conn.feed(bytes([ENQ]))
        if not rig.settle():
            raise common.Wedged("no rest after ENQ")
        for ch in chunked(rnd, bytes(blk)):
            rig.conn.feed(ch)
            chunks.append(ch)
            rig.settle()
        if not rig.settle():
            raise common.Wedged("no rest after the block")
        line = b"".join(rig.conn.sent)
        delivered = len(rig.app_messages)
    finally:
        rig.stop()
    raised = blk[0] > old
    lit = "(LRecvLen [" + ";".join(nl(c) for c in chunks) + "] " + nl(line) + f" {delivered}%nat {'true' if raised else 'false'})"
    return lit, {"length_byte": f"{old} -> {blk[0]}", "answer": line.hex(), "delivered": delivered}


def retry_case(rnd, host, size, bad_block, pos):
    """a multi-block message of which block `bad_block` arrives damaged (NAK, the sender's call fails), then the sender's next
    attempt - the same blocks, same system bytes - arrives undamaged: every block of it is acknowledged, so it must arrive intact, once"""
    rig = make_rig(host)
    try:
        msg = message(rnd, size, 4711)
        blocks = [b.encode() for b in msg.blocks]
        bad_block = min(bad_block, len(blocks) - 1)
        damaged = bytearray(blocks[bad_block])
        damaged[min(pos, len(damaged) - 1)] ^= rnd.choice([1, 0x10, 0x80])
        answers = []

        def feed(blk):
            start = len(b"".join(rig.conn.sent))
            rig.conn.feed(bytes([ENQ]))
            if not rig.settle():
                raise common.Wedged("no rest after ENQ")
            for ch in chunked(rnd, blk):
                rig.conn.feed(ch)
            if not rig.settle():
                raise common.Wedged("no rest after the block")
            answers.append(b"".join(rig.conn.sent)[start:].hex())

        for blk in blocks[:bad_block]:
            feed(blk)
        feed(bytes(damaged))
        first_attempt = list(answers)
        del answers[:]
        for blk in blocks:
            feed(blk)
        all_acked = all(a == bytes([EOT, ACK]).hex() for a in answers)
        same = [d for d in rig.app_messages if d.header.system == msg.header.system]
        intact = len(same) == 1 and same[0].data == msg.data and (same[0].header.stream, same[0].header.function) == (msg.header.stream, msg.header.function)
    finally:
        rig.stop()
    return {"size": size, "blocks": len(blocks), "damaged_block": bad_block + 1, "damaged_byte": pos, "first_attempt_answers": first_attempt, "second_attempt_answers": answers,
            "second_attempt_all_acknowledged": all_acked, "delivered_lengths": [len(d.data) for d in same], "intact_once": intact}


def send_case(rnd, host, size, script):
    """the library sends a message; the peer answers ENQ and the block as the script says: 'ack', 'nak', or another byte"""
    rig = make_rig(host)
    try:
        msg = message(rnd, size, 555)
        blocks = [b.encode() for b in msg.blocks]
        box = {}
        th = threading.Thread(target=lambda: box.setdefault("r", rig.proto.send_message(msg)), daemon=True)
        th.start()
        answers = []
        seen = 0
        for k in range(len(blocks)):
            # wait for ENQ
            deadline = time.monotonic() + 5
            while len(b"".join(rig.conn.sent)) <= seen and time.monotonic() < deadline:
                time.sleep(0.0005)
            rig.settle(ignore_send_queue=True)
            if len(b"".join(rig.conn.sent)) <= seen:
                break
            seen = len(b"".join(rig.conn.sent))
            step = script[k % len(script)]
            if isinstance(step, tuple):
                # the peer does not answer the ENQ with EOT at once: NAK, noise, (to an equipment) its own ENQ come first.
                # Each of these must be answered by another ENQ, never by the block
                for junk in step[0]:
                    rig.conn.feed(bytes([junk]))
                    answers.append(junk)
                    deadline = time.monotonic() + 5
                    while len(b"".join(rig.conn.sent)) <= seen and time.monotonic() < deadline:
                        time.sleep(0.0005)
                    rig.settle(ignore_send_queue=True)
                    seen = len(b"".join(rig.conn.sent))
                step = step[1]
            rig.conn.feed(bytes([EOT]))
            answers.append(EOT)
            deadline = time.monotonic() + 5
            while len(b"".join(rig.conn.sent)) < seen + len(blocks[k]) and time.monotonic() < deadline:
                time.sleep(0.0005)
            rig.settle(ignore_send_queue=True)
            seen = len(b"".join(rig.conn.sent))
            a = {"ack": ACK, "nak": NAK}.get(step, step)
            rig.conn.feed(bytes([a]))
            answers.append(a)
            rig.settle(ignore_send_queue=True)
            if a != ACK:
                break
        th.join(5)
        if th.is_alive():
            raise common.Wedged("send_message did not return")
        sent = [bytes(x) for x in rig.conn.sent]
        result = box.get("r")
    finally:
        rig.stop()
    res = "None" if result is None else ("(Some true)" if result else "(Some false)")
    lit = "(LSend [" + ";".join(nl(b) for b in blocks) + "] " + nl(answers) + " [" + ";".join(nl(s) for s in sent) + "] " + res + ")"
    return lit, {"blocks": len(blocks), "result": result}


def serial_line_case(host):
    """the shipped SerialConnection on a pseudo terminal (the harness holds the other end): a message whose body contains every byte
    value arrives block by block, then the library sends one.  The line must be transparent: flow-control or control characters
    (XON/XOFF, CR/LF, ^C ...) are data like any other.  Returns (LRecv literal, LSend literal, details) or None without ptys."""
    import os
    import pty
    import select

    try:
        master, slave = pty.openpty()
    except OSError:
        return None
    settings = secsgem.secsi.SecsISettings(port=os.ttyname(slave), device_type=secsgem.common.DeviceType.HOST if host else secsgem.common.DeviceType.EQUIPMENT, device_id=1)
    proto = settings.create_protocol()
    got = []
    proto.events.message_received += lambda data: got.append(data["message"])

    def read_n(n, timeout=5.0):
        out = b""
        deadline = time.monotonic() + timeout
        while len(out) < n and time.monotonic() < deadline:
            if select.select([master], [], [], 0.05)[0]:
                out += os.read(master, n - len(out))
        return out

    en = threading.Thread(target=proto.enable, daemon=True)
    en.start()
    en.join(10)
    try:
        if en.is_alive():
            raise common.Wedged("enable() of the serial connection did not return")
        time.sleep(0.2)
        body = bytes(range(256)) + bytes([0x11, 0x13, 0x11, 0x03, 0x1A, 0x0D, 0x0A, 0x7F, 0x1C])
        msg = SecsIMessage(SecsIHeader(0x11131A03, 1, 17, 19, False), body)      # stream 17 (XON), function 19 (XOFF)
        blocks = [b.encode() for b in msg.blocks]
        chunks, line = [], b""
        for blk in blocks:
            os.write(master, bytes([ENQ]))
            chunks.append(bytes([ENQ]))
            line += read_n(1)
            os.write(master, blk)
            chunks.append(blk)
            line += read_n(1)
        deadline = time.monotonic() + 3
        while not got and time.monotonic() < deadline:
            time.sleep(0.01)
        intact = len(got) == 1 and got[0].data == body and (got[0].header.stream, got[0].header.function, got[0].header.system) == (17, 19, 0x11131A03)
        recv_lit = "(LRecv [" + ";".join(nl(c) for c in chunks) + "] " + nl(line) + f" {len(blocks) if intact else 0}%nat {len(blocks)}%nat false)"
        # outbound
        out = SecsIMessage(SecsIHeader(0x13110D0A, 1, 19, 17, False), bytes([0x13, 0x11]) + bytes(range(255, -1, -1)))
        oblocks = [b.encode() for b in out.blocks]
        box = {}
        th = threading.Thread(target=lambda: box.setdefault("r", proto.send_message(out)), daemon=True)
        th.start()
        sent, answers = [], []
        for blk in oblocks:
            e = read_n(1)
            sent.append(e)
            os.write(master, bytes([EOT]))
            answers.append(EOT)
            b = read_n(len(blk))
            sent.append(b)
            os.write(master, bytes([ACK]))
            answers.append(ACK)
        th.join(5)
        result = box.get("r")
        res = "None" if result is None else ("(Some true)" if result else "(Some false)")
        send_lit = "(LSend [" + ";".join(nl(b) for b in oblocks) + "] " + nl(answers) + " [" + ";".join(nl(s) for s in sent if s) + "] " + res + ")"
        return recv_lit, send_lit, {"inbound_answers": line.hex(), "inbound_intact_once": intact, "outbound_result": result,
                                    "outbound_bytes_equal": [s for s in sent if s] == [x for blk in oblocks for x in (bytes([ENQ]), blk)]}
    finally:
        try:
            proto.disable()
        except Exception:  # noqa: BLE001
            pass
        for fd in (master, slave):
            try:
                os.close(fd)
            except OSError:
                pass


def send_two_case(rnd, host, script_unused=None, size_unused=None):
    """two application threads send one single-block message each; the second block is queued while the first still waits for
    its EOT.  Each block needs its own ENQ / EOT / ACK"""
    rig = make_rig(host)
    try:
        msgs = [message(rnd, 10, 601), message(rnd, 30, 602)]
        blocks = [m.blocks[0].encode() for m in msgs]
        boxes = [{}, {}]

        def total():
            return len(b"".join(rig.conn.sent))

        def wait_for(n):
            deadline = time.monotonic() + 5
            while total() < n and time.monotonic() < deadline:
                time.sleep(0.0005)
            rig.settle(ignore_send_queue=True)
            return total() >= n

        ths = [threading.Thread(target=lambda i=i: boxes[i].setdefault("r", rig.proto.send_message(msgs[i])), daemon=True) for i in range(2)]
        ths[0].start()
        if not wait_for(1):
            raise common.Wedged("no ENQ")
        ths[1].start()
        deadline = time.monotonic() + 5
        while rig.proto._send_queue.qsize() < 2 and time.monotonic() < deadline:
            time.sleep(0.0005)
        answers = []
        seen = total()
        for k in range(2):
            rig.conn.feed(bytes([EOT]))
            answers.append(EOT)
            if not wait_for(seen + len(blocks[k])):
                break
            seen = total()
            rig.conn.feed(bytes([ACK]))
            answers.append(ACK)
            if k == 0:
                if not wait_for(seen + 1):
                    break
                rig.settle(ignore_send_queue=True)
                seen = total()
        for th in ths:
            th.join(5)
        if any(th.is_alive() for th in ths):
            raise common.Wedged("send_message did not return")
        sent = [bytes(x) for x in rig.conn.sent]
        results = [b.get("r") for b in boxes]
    finally:
        rig.stop()
    result = None if any(r is None for r in results) else all(results)
    res = "None" if result is None else ("(Some true)" if result else "(Some false)")
    lit = "(LSend [" + ";".join(nl(b) for b in blocks) + "] " + nl(answers) + " [" + ";".join(nl(s) for s in sent) + "] " + res + ")"
    return lit, {"blocks": 2, "result": result}


def request_reply_case(host, reply_size):
    """a transaction over the line: the application asks with send_and_waitfor_response (S1F1 W), the peer acknowledges the block and
    then sends the reply (S1F2, same system bytes, 1-2 blocks) as a sender does.  The reply goes to the caller - once - and is not
    handed to message_received as well; an unsolicited message afterwards is."""
    rig = make_rig(host)
    obs = {"host": host, "reply_size": reply_size}

    def line_len():
        return len(b"".join(rig.conn.sent))

    def wait_line(n, seconds=5.0):
        deadline = time.monotonic() + seconds
        while line_len() < n and time.monotonic() < deadline:
            time.sleep(0.0005)
        rig.settle(ignore_send_queue=True)
        return line_len() >= n

    def peer_sends(msg):
        for blk in msg.blocks:
            n0 = line_len()
            rig.conn.feed(bytes([ENQ]))
            wait_line(n0 + 1)
            rig.conn.feed(blk.encode())
            wait_line(n0 + 2)
        rig.settle()

    try:
        fn = rig.settings.streams_functions.function(1, 1)()
        box = {}
        th = threading.Thread(target=lambda: box.setdefault("r", rig.proto.send_and_waitfor_response(fn)), daemon=True)
        th.start()
        if not wait_line(1):
            raise common.Wedged("no ENQ for the request")
        rig.conn.feed(bytes([EOT]))
        wait_line(1 + 13)
        sent = b"".join(rig.conn.sent)
        system = int.from_bytes(sent[1 + 7:1 + 11], "big")
        rig.conn.feed(bytes([ACK]))
        rig.settle(ignore_send_queue=True)
        reply = SecsIMessage(SecsIHeader(system, 1, 1, 2, from_equipment=host, require_response=False), bytes(range(256))[:reply_size] if reply_size <= 256 else bytes(reply_size))
        peer_sends(reply)
        th.join(10)
        obs["caller_returned"] = not th.is_alive()
        got = box.get("r")
        obs["caller_got_the_reply"] = got is not None and got.header.system == system and bytes(got.data) == bytes(reply.data)
        obs["also_fired_message_received"] = any(m.header.system == system for m in rig.app_messages)
        unsolicited = SecsIMessage(SecsIHeader(system + 7, 1, 1, 13, from_equipment=host, require_response=True), b"\x01\x00")
        peer_sends(unsolicited)
        obs["unsolicited_delivered"] = sum(1 for m in rig.app_messages if m.header.system == system + 7)
    finally:
        rig.stop()
    return obs


def dispatch_at_empty_check_case(host):
    """a received block is queued for dispatch at the very moment the dispatcher thread found its queue empty (forced through the
    queue object's qsize()): it still has to reach the application without waiting for the next message"""
    import queue as _queue
    rig = make_rig(host)
    try:
        disp = rig.proto._thread
        first = SecsIMessage(SecsIHeader(8001, 1, 1, 1, require_response=True), b"").blocks[0]
        late = SecsIMessage(SecsIHeader(8002, 1, 1, 1, require_response=True), b"").blocks[0]
        state = {"armed": True, "injected": False}

        class Hooked(_queue.Queue):
            def qsize(self):
                n = super().qsize()
                if n == 0 and state["armed"]:
                    state["armed"] = False
                    state["injected"] = True
                    disp.queue_block(rig.proto, late)
                    return 0
                return n

        disp._dispatch_queue = Hooked()
        disp.queue_block(rig.proto, first)
        deadline = time.monotonic() + 3
        while time.monotonic() < deadline and len(rig.app_messages) < 2:
            time.sleep(0.002)
        got = [m.header.system for m in rig.app_messages]
    finally:
        rig.stop()
    return {"host": host, "injected": state["injected"], "handed_to_the_application": got, "expected": [8001, 8002]}


def gen_cases(rnd, tier):
    cases = []
    n = 40 if tier == "quick" else 300
    for _ in range(n):
        host = rnd.random() < 0.5
        c = rnd.random()
        if c < 0.35:
            cases.append(("recv", host, [rnd.choice([0, 1, 10, 100, 244]) for _ in range(rnd.choice([1, 1, 2, 3]))], None))
        elif c < 0.45:
            cases.append(("recv", host, [rnd.choice([245, 300, 500])], None))            # multi-block
        elif c < 0.70:
            cases.append(("recv", host, [rnd.choice([0, 5, 50, 244])], -1))              # one corrupted byte
        else:
            cases.append(("send", host, rnd.choice([0, 1, 100, 244, 245, 600]),
                          [(lambda a: a if rnd.random() < 0.7 else ([rnd.choice([0, 6, 21, 255] + ([] if host else [5])) for _ in range(rnd.choice([1, 1, 2]))], a))(
                              rnd.choice(["ack", "ack", "ack", "nak", 4, 0])) for _ in range(3)]))
    for pos in (1, 2, 10, 11):
        cases.append(("recv", False, [8], pos))
    cases.append(("send", True, 500, ["ack", "nak"]))
    for host, size, script in [(False, 10, [4]), (True, 10, [0]), (False, 300, ["ack", 5]), (True, 0, ["nak"]), (False, 244, ["ack"])]:
        cases.append(("send", host, size, script))
    cases.append(("send", False, 500, ["ack", "ack", "ack"]))
    # answers to ENQ that are not EOT (the block may only be started after EOT)
    cases.append(("send", False, 10, [([NAK], "ack")]))
    cases.append(("send2", False, None, None))
    cases.append(("send2", True, None, None))
    cases.append(("send", False, 300, [([5], "ack"), ([0, 6, 21], "ack")]))         # equipment: the host's own ENQ, noise, ACK, NAK
    cases.append(("send", True, 300, [([21, 6], "ack"), ([4 + 1 + 1], "nak")]))
    cases.append(("send", True, 10, [([0, 255, 6], "ack")]))
    # the length byte itself changed in transit: raised by 1 / 5 / to 255, lowered by 1 / 5 / to 0 / to 3 (below a header)
    for k, f in enumerate([lambda o: o + 1, lambda o: o + 5, lambda o: 255, lambda o: o - 1, lambda o: o - 5, lambda o: 0, lambda o: 3]):
        cases.append(("recvlen", k % 2 == 0, [0, 20, 100][k % 3], f))
    return cases


HEADER = "From SG Require Import Base.Prelude Base.Kinds Model.SecsILine Run.C17Run.\nOpen Scope N_scope.\n"


def evaluate(lits, prefix, shard=40):
    shards, maps = [], []
    idx = list(range(len(lits)))
    for s in range(0, len(idx), shard):
        part = idx[s: s + shard]
        maps.append(part)
        shards.append("Definition cs : list c17case := [\n" + ";\n".join(lits[i] for i in part) + "\n].\nEval vm_compute in run_c17 cs.\n")
    outs = common.coq_eval_shards(prefix, HEADER, shards)
    bad, skipped, checked, errors = [], 0, 0, []
    for part, (ok, text) in zip(maps, outs):
        parsed = common.parse_triples(text) if ok else None
        if parsed is None:
            errors.append(text[-800:])
            continue
        b, sk, ch = parsed
        skipped += sk
        checked += ch
        bad.extend((part[i], m, s) for i, m, s in b)
    return bad, {"skipped_unmodelled": skipped, "spec_checked": checked, "eval_errors": errors, "observed": len(lits)}


SPEC_CODES = {39: "a block whose length byte was changed in transit was not answered with exactly EOT, NAK", 40: "a block whose length byte was changed in transit was delivered",
              31: "a block with a wrong checksum was not answered with exactly EOT, NAK / was delivered", 32: "valid announced blocks were not each answered with EOT and ACK and delivered once",
              33: "send_message reported success although a block was not acknowledged / the line dialog is not ENQ, block per block", 34: "send_message reported failure although every block was acknowledged"}
MODEL_CODES = {12: "model and implementation put different bytes on the line", 13: "model and implementation deliver a different number of blocks",
               14: "model and implementation send different bytes", 15: "model and implementation report a different send result"}


def run(tier, replay=None):
    import json
    import logging
    from collections import Counter
    logging.disable(logging.CRITICAL)
    report = common.Report("C17", tier)
    if replay:
        print(json.dumps(json.load(open(replay)), indent=1)[:3000])
        return 0
    proof = common.prove(report, "C17", ["protoconsts", "secsiline"], extra_targets=["Run/C17Run.vo"])
    ok, log = common.coq_make(["Run/C17Run.vo"])
    if not ok:
        report.violation({"kind": "broken-obligation", "obligation": "Run/C17Run.vo does not build against the regenerated constants", "detail": log[-1500:], "also": proof.get("broken")}, False, tag="modelbuild")
        return report.finish()
    rnd = common.rng("c17")
    cases = gen_cases(rnd, tier)
    wedged, kept, lits, raws = [], [], [], []
    for c in cases:
        r = common.guarded(lambda c=c: (recv_case(rnd, c[1], c[2], c[3]) if c[0] == "recv" else recv_len_case(rnd, c[1], c[2], c[3]) if c[0] == "recvlen" else send_two_case(rnd, c[1]) if c[0] == "send2" else send_case(rnd, c[1], c[2], c[3])),
                           repr(c[:3]), wedged, 30.0)
        if r is not None:
            kept.append(c)
            lits.append(r[0])
            raws.append(r[1])
    cases = kept
    # the shipped serial transport on a pseudo terminal, both directions, every byte value
    serial_obs = []
    for host in (False, True):
        r = common.guarded(lambda h=host: serial_line_case(h), f"SerialConnection on a pty, host={host}", wedged, 40.0)
        if r is not None:
            recv_lit, send_lit, det = r
            serial_obs.append({"host": host, **det})
            cases += [("serial-recv", host, "all byte values"), ("serial-send", host, "all byte values")]
            lits += [recv_lit, send_lit]
            raws += [{"intact": det["inbound_intact_once"], "once": True, **det}, det]
    common.report_wedged(report, wedged, proof)
    for c, raw in zip(cases, raws):
        if raw.get("intact") is False or raw.get("once") is False:
            report.violation({"kind": "counterexample", "what": "a message whose blocks were all acknowledged did not arrive exactly once with identical header and body", "case": repr(c), **raw}, True, tag="intact")
            break
    # a failed attempt followed by the sender's next attempt (same system bytes)
    retries, rwedged = [], []
    for host, size, bad_block, pos in ([(False, 300, 1, 20), (True, 600, 2, 5), (False, 500, 1, 255), (False, 100, 0, 30), (True, 300, 0, 100), (True, 1, 0, 12)] if tier == "quick" else
                                       [(h, sz, b, p) for h in (False, True) for sz in (1, 100, 245, 300, 488, 600, 1000) for b in (0, 1, 2, 3) for p in (1, 5, 12, 20, 254)]):
        obs = common.guarded(lambda a=(host, size, bad_block, pos): retry_case(rnd, *a), f"retry after a damaged block: host={host} size={size} block={bad_block + 1} byte={pos}", rwedged, 30.0)
        if obs is None:
            continue
        retries.append(obs)
        if obs["second_attempt_all_acknowledged"] and not obs["intact_once"]:
            report.violation({"kind": "counterexample", "what": "after an attempt that failed on a damaged block, the sender's next attempt was acknowledged block by block but the message did not arrive intact, once",
                              **obs}, True, tag="retry")
            break
    common.report_wedged(report, rwedged, proof)
    # transactions: the reply goes to the caller only; and the dispatcher's empty-queue moment
    trans = []
    for host, size in ([(False, 10), (True, 300)] if tier == "quick" else [(h, sz) for h in (False, True) for sz in (0, 10, 244, 245, 600)]):
        obs = common.guarded(lambda a=(host, size): request_reply_case(*a), f"request/reply over the line: host={host}, reply of {size} bytes", rwedged, 60.0)
        if obs is None:
            continue
        trans.append(obs)
        if not (obs.get("caller_returned") and obs.get("caller_got_the_reply") and not obs.get("also_fired_message_received") and obs.get("unsolicited_delivered") == 1):
            report.violation({"kind": "counterexample", "what": "a reply that was transferred once on the line did not arrive exactly once: at the waiting caller, not (also) as an unsolicited message", **obs}, True, tag="reply")
            break
    for host in (False, True):
        obs = common.guarded(lambda h=host: dispatch_at_empty_check_case(h), f"block queued at the dispatcher's empty check, host={host}", rwedged, 30.0)
        if obs is not None:
            trans.append(obs)
            if obs["injected"] and obs["handed_to_the_application"] != obs["expected"]:
                report.violation({"kind": "counterexample", "what": "an acknowledged block queued for dispatch when the dispatcher had just found its queue empty never reached the application", **obs}, True, tag="lostwakeup")
                break
    common.report_wedged(report, rwedged, proof)
    bad, stats = evaluate(lits, "c17")
    spec_bad = [(i, m, sc) for i, m, sc in bad if sc >= 30]
    model_bad = [(i, m, sc) for i, m, sc in bad if m >= 10 and sc < 30]
    reported = set()
    known = {e["id"]: e for e in common.known_findings("C17") if e.get("status") == "open"}
    seen_known = [i for i, m, sc in spec_bad if sc == 39 and "C17-length-byte" in known]
    if seen_known:
        report.known(f"C17-length-byte: {known['C17-length-byte']['text']} ({len(seen_known)} blocks of this run, e.g. {raws[seen_known[0]]})")
    spec_bad = [t for t in spec_bad if not (t[2] == 39 and "C17-length-byte" in known)]
    model_bad = [t for t in model_bad if t[0] not in seen_known]
    for i, m, sc in spec_bad:
        if sc in reported:
            continue
        reported.add(sc)
        report.violation({"kind": "counterexample", "what": SPEC_CODES.get(sc, str(sc)), "case": repr(cases[i][:3]), "observed_case": lits[i][:3000], "model_code": m,
                          "broken_obligation": proof.get("broken")}, True, tag=f"spec{sc}")
    if not report.violations:
        if model_bad:
            i, m, sc = model_bad[0]
            report.violation({"kind": "broken-correspondence", "obligation": "Model/SecsILine.v no longer behaves like SecsIProtocol: " + MODEL_CODES.get(m, str(m)),
                              "case": repr(cases[i]), "observed_case": lits[i][:3000], "count": len(model_bad)}, False, tag="model")
        elif stats["eval_errors"]:
            report.violation({"kind": "broken-correspondence", "obligation": "case evaluation failed", "detail": stats["eval_errors"][0]}, False, tag="eval")
        elif not proof["ok"]:
            report.violation({"kind": "broken-obligation", "obligation": proof["broken"], "searched": f"{len(lits)} line dialogs on the implementation: all as stated"}, False, tag="proof")
    cov = report.coverage
    cov["evaluations"] = len(lits)
    cov["distinct_nontrivial"] = len(set(lits))
    cov["rule"] = ("a real SecsIProtocol (host and equipment device type) on an in-memory line: (receive) 1-3 messages of 0-500 bytes, each block announced by ENQ and fed in random chunks "
                   "(1 to 1000 bytes), optionally with one byte behind the length byte changed, or the length byte itself raised / lowered; observed: the bytes the endpoint puts on the line, delivered messages (identical, once); "
                   "(send) messages of 1-3 blocks sent from an application thread, the peer answering ENQ with EOT - or first with NAK, noise, its own ENQ - and each block with ACK, NAK or another byte; two application threads with a block each queued at the same time; "
                   "observed: the bytes sent and the result; (transport) the shipped SerialConnection on a pseudo terminal: a two-block message with every byte value (XON, XOFF, ^C, CR, LF ... in header and body) in each direction")
    cov["correspondence"] = {k: v for k, v in stats.items() if k != "eval_errors"}
    cov["distribution"] = {"kinds": dict(Counter(c[0] + ("-corrupt" if c[0] == "recv" and c[3] is not None else "") for c in cases)), "device": dict(Counter("host" if c[1] else "equipment" for c in cases))}
    cov["samples"] = [repr(c)[:200] for c in cases[:: max(1, len(cases) // 5)][:5]]
    cov["transactions_and_dispatch"] = trans
    cov["serial_connection_on_pty"] = serial_obs or "no pseudo terminal available"
    cov["retry_after_damaged_block"] = [{k: o[k] for k in ("size", "blocks", "damaged_block", "second_attempt_all_acknowledged", "delivered_lengths", "intact_once")} for o in retries]
    return report.finish()
