"""Translator: SecsIProtocol._process_send_queue and _process_received_data (the SECS-I line protocol) -> coq/Gen/SecsILine.v (fail-closed).

The two loops are read statement by statement and emitted as the sequences of steps of one round, in source order:

  send:     self._connection.send_data(bytes([self.ENQ]))                         SSendENQ
            x = self._receive_buffer.wait_for_byte(peek=True)                     SPeekAnswer
            if x == self.ENQ and <this side is the host>: self._process_received_data(); continue     SYieldToPeerIfHost
            x = self._receive_buffer.pop_byte()                                   STakeAnswer
            if x != self.EOT: continue                                            SAgainUnlessEOT
            b = self._send_queue.get()                                            STakeBlock
            self._connection.send_data(b.data)                                    SSendBlock
            r = self._receive_buffer.wait_for_byte()                              SWaitResult
            b.resolve(r == self.ACK)                                              SResolveByACK
  receive:  b = self._receive_buffer.pop_byte()                                   RTakeByte
            if b != self.ENQ: <log>                                               (no step: any byte is answered)
            self._connection.send_data(bytes([self.EOT]))                         RSendEOT
            n = self._receive_buffer.wait_for_byte(peek=True)                     RPeekLength
            d = self._receive_buffer.wait_for(n + 3)                              RTakeBlock 3
            r = SecsIBlock.decode(d)                                              RDecode
            if r is None: self._connection.send_data(bytes([self.NAK])); return   RNakAndStopIfBad
            if self._is_reply_to_open_transaction(r): dispatch direct else queue  RHandOver
            self._connection.send_data(bytes([self.ACK]))                         RSendACK

Props/C17.v states the orders the line model (Model/SecsILine.v) is written for and the repairs established: a block is taken from the queue and put
on the line only behind the EOT test (D50), it is resolved by comparing the answer with ACK, a block that does not decode is answered NAK and
nothing is handed over, ACK comes after the hand-over.
"""
from __future__ import annotations

import ast
import os
import sys

from astutil import GEN_DIR, TranslationError, find_class, find_method, parse, write_if_changed

REL = "secsgem/secsi/protocol.py"


def chain(node):
    out = []
    while isinstance(node, ast.Attribute):
        out.append(node.attr)
        node = node.value
    if isinstance(node, ast.Name):
        out.append(node.id)
    return ".".join(reversed(out))


def is_call(node, name):
    return isinstance(node, ast.Call) and chain(node.func) == name


def strip(stmts):
    return [s for s in stmts if not (isinstance(s, ast.Expr) and isinstance(s.value, ast.Constant))
            and not (isinstance(s, ast.Expr) and isinstance(s.value, ast.Call) and chain(s.value.func).startswith("self._logger."))]


def sends_char(st, char):
    """self._connection.send_data(bytes([self.<char>]))"""
    if not (isinstance(st, ast.Expr) and is_call(st.value, "self._connection.send_data") and len(st.value.args) == 1):
        return False
    a = st.value.args[0]
    return (is_call(a, "bytes") and len(a.args) == 1 and isinstance(a.args[0], ast.List) and len(a.args[0].elts) == 1 and chain(a.args[0].elts[0]) == f"self.{char}")


def loop_body(fn, what, empty_test):
    body = strip(fn.body)
    if not (len(body) == 2 and isinstance(body[0], ast.If) and isinstance(strip(body[0].body)[0], ast.Return) and isinstance(body[1], ast.While) and not body[1].orelse):
        raise TranslationError(f"{what}: a guard and one while loop expected")
    return strip(body[1].body)


def send_ops(cls):
    what = f"{REL}: SecsIProtocol._process_send_queue"
    ops, answer, block, result = [], None, None, None
    for st in loop_body(find_method(cls, "_process_send_queue"), what, None):
        if sends_char(st, "ENQ"):
            ops.append("SSendENQ")
        elif isinstance(st, ast.Assign) and isinstance(st.targets[0], ast.Name) and is_call(st.value, "self._receive_buffer.wait_for_byte"):
            peek = any(k.arg == "peek" and isinstance(k.value, ast.Constant) and k.value.value is True for k in st.value.keywords)
            if peek:
                answer = st.targets[0].id
                ops.append("SPeekAnswer")
            else:
                result = st.targets[0].id
                ops.append("SWaitResult")
        elif isinstance(st, ast.Assign) and isinstance(st.targets[0], ast.Name) and is_call(st.value, "self._receive_buffer.pop_byte"):
            answer = st.targets[0].id
            ops.append("STakeAnswer")
        elif isinstance(st, ast.If) and not st.orelse and isinstance(strip(st.body)[-1], ast.Continue):
            t = st.test
            if isinstance(t, ast.Compare) and chain(t.left) == answer and isinstance(t.ops[0], ast.NotEq) and chain(t.comparators[0]) == "self.EOT" and len(strip(st.body)) == 1:
                ops.append("SAgainUnlessEOT")
            elif (isinstance(t, ast.BoolOp) and isinstance(t.op, ast.And) and len(t.values) == 2 and isinstance(t.values[0], ast.Compare) and chain(t.values[0].left) == answer
                  and isinstance(t.values[0].ops[0], ast.Eq) and chain(t.values[0].comparators[0]) == "self.ENQ" and "DeviceType.HOST" in ast.unparse(t.values[1])
                  and len(strip(st.body)) == 2 and is_call(strip(st.body)[0].value, "self._process_received_data")):
                ops.append("SYieldToPeerIfHost")
            else:
                raise TranslationError(f"{what}: branch not understood: {ast.unparse(t)[:100]}")
        elif isinstance(st, ast.Assign) and isinstance(st.targets[0], ast.Name) and is_call(st.value, "self._send_queue.get"):
            block = st.targets[0].id
            ops.append("STakeBlock")
        elif isinstance(st, ast.Expr) and is_call(st.value, "self._connection.send_data") and len(st.value.args) == 1 and chain(st.value.args[0]) == f"{block}.data":
            ops.append("SSendBlock")
        elif (isinstance(st, ast.Expr) and is_call(st.value, f"{block}.resolve") and len(st.value.args) == 1 and isinstance(st.value.args[0], ast.Compare)
              and chain(st.value.args[0].left) == result and isinstance(st.value.args[0].ops[0], ast.Eq) and chain(st.value.args[0].comparators[0]) == "self.ACK"):
            ops.append("SResolveByACK")
        else:
            raise TranslationError(f"{what}: statement not understood: {ast.dump(st)[:130]}")
    return ops


def recv_ops(cls):
    what = f"{REL}: SecsIProtocol._process_received_data"
    ops, first, length, data, resp = [], None, None, None, None
    for st in loop_body(find_method(cls, "_process_received_data"), what, None):
        if isinstance(st, ast.Assign) and isinstance(st.targets[0], ast.Name) and is_call(st.value, "self._receive_buffer.pop_byte"):
            first = st.targets[0].id
            ops.append("RTakeByte")
        elif isinstance(st, ast.If) and not st.orelse and isinstance(st.test, ast.Compare) and chain(st.test.left) == first and chain(st.test.comparators[0]) == "self.ENQ" and not strip(st.body):
            continue              # only a log line: any byte is answered with EOT
        elif sends_char(st, "EOT"):
            ops.append("RSendEOT")
        elif isinstance(st, ast.Assign) and isinstance(st.targets[0], ast.Name) and is_call(st.value, "self._receive_buffer.wait_for_byte") \
                and any(k.arg == "peek" and getattr(k.value, "value", None) is True for k in st.value.keywords):
            length = st.targets[0].id
            ops.append("RPeekLength")
        elif isinstance(st, ast.Assign) and isinstance(st.targets[0], ast.Name) and is_call(st.value, "self._receive_buffer.wait_for") and len(st.value.args) == 1 \
                and isinstance(st.value.args[0], ast.BinOp) and isinstance(st.value.args[0].op, ast.Add) and chain(st.value.args[0].left) == length \
                and isinstance(st.value.args[0].right, ast.Constant) and type(st.value.args[0].right.value) is int:
            data = st.targets[0].id
            ops.append(f"RTakeBlock {st.value.args[0].right.value}")
        elif isinstance(st, ast.Assign) and isinstance(st.targets[0], ast.Name) and is_call(st.value, "SecsIBlock.decode") and chain(st.value.args[0]) == data:
            resp = st.targets[0].id
            ops.append("RDecode")
        elif isinstance(st, ast.If) and not st.orelse and isinstance(st.test, ast.Compare) and chain(st.test.left) == resp and isinstance(st.test.ops[0], ast.Is) \
                and getattr(st.test.comparators[0], "value", 0) is None:
            inner = strip(st.body)
            if not (len(inner) == 2 and sends_char(inner[0], "NAK") and isinstance(inner[1], ast.Return)):
                raise TranslationError(f"{what}: a block that does not decode is not answered with NAK and dropped")
            ops.append("RNakAndStopIfBad")
        elif isinstance(st, ast.If) and is_call(st.test, "self._is_reply_to_open_transaction") and len(st.body) == 1 and len(st.orelse) == 1 \
                and is_call(st.body[0].value, "self._dispatch_block") and is_call(st.orelse[0].value, "self._thread.queue_block"):
            ops.append("RHandOver")
        elif sends_char(st, "ACK"):
            ops.append("RSendACK")
        else:
            raise TranslationError(f"{what}: statement not understood: {ast.dump(st)[:130]}")
    return ops


def generate() -> str:
    cls = find_class(parse(REL), "SecsIProtocol", REL)
    return "\n".join(["(* GENERATED by harness/gen_secsiline.py from SecsIProtocol._process_send_queue and _process_received_data - do not edit. *)",
                      "From SG Require Import Base.Prelude.", "",
                      "Inductive line_send_op := SSendENQ | SPeekAnswer | SYieldToPeerIfHost | STakeAnswer | SAgainUnlessEOT | STakeBlock | SSendBlock | SWaitResult | SResolveByACK.",
                      "Inductive line_recv_op := RTakeByte | RSendEOT | RPeekLength | RTakeBlock (extra : nat) | RDecode | RNakAndStopIfBad | RHandOver | RSendACK.", "",
                      "Definition line_send_ops : list line_send_op := [" + "; ".join(send_ops(cls)) + "].",
                      "Definition line_recv_ops : list line_recv_op := [" + "; ".join(recv_ops(cls)) + "].", ""])


if __name__ == "__main__":
    try:
        changed = write_if_changed(os.path.join(GEN_DIR, "SecsILine.v"), generate())
        print(f"gen_secsiline: {'updated' if changed else 'unchanged'}")
    except TranslationError as exc:
        print(f"TRANSLATION-ERROR gen_secsiline: {exc}")
        sys.exit(3)
