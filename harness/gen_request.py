"""Translator: Protocol.send_and_waitfor_response (with _get_queue_for_system / _remove_queue) -> coq/Gen/Request.v (fail-closed).

The method is read statement by statement and emitted as the sequence of steps a requesting thread takes, in source order:

    system_id = self.get_next_system_counter()                       QAlloc
    response_queue = self._get_queue_for_system(system_id)            QRegister fresh      (fresh: the waiter is a NEW queue.Queue() for this request)
    out_message = self._create_message_for_function(...)              (no step)
    if not self.send_message(out_message): ...; self._remove_queue(system_id); return None      QSend, then QOnFailure [QRemove; QReturnNone]
    try: response = response_queue.get(True, <T3>)  except queue.Empty: response = None          QWait
    self._remove_queue(system_id)                                     QRemove
    return response                                                   QReturnResponse

Model/Request.v runs these steps against replies that arrive at any moment after the request was sent; Props/C06.v proves from the regenerated
sequence that a call only ever returns the reply to its own request.
"""
from __future__ import annotations

import ast
import os
import sys

from astutil import GEN_DIR, TranslationError, find_class, find_method, parse, write_if_changed

REL = "secsgem/common/protocol.py"


def chain(node):
    out = []
    while isinstance(node, ast.Attribute):
        out.append(node.attr)
        node = node.value
    if isinstance(node, ast.Name):
        out.append(node.id)
    return ".".join(reversed(out))


def is_call(node, name):
    return isinstance(node, ast.Call) and chain(node.func) == name


def strip(stmts):
    return [s for s in stmts if not (isinstance(s, ast.Expr) and isinstance(s.value, ast.Constant))
            and not (isinstance(s, ast.Expr) and isinstance(s.value, ast.Call) and (chain(s.value.func).startswith("self._logger.") or chain(s.value.func).startswith("self._communication_logger.")))]


def fresh_queue(cls):
    """_get_queue_for_system: self._response_queues[system_id] = queue.Queue(); return self._response_queues[system_id]"""
    body = strip(find_method(cls, "_get_queue_for_system").body)
    ok = (len(body) == 2 and isinstance(body[0], ast.Assign) and isinstance(body[0].targets[0], ast.Subscript) and chain(body[0].targets[0].value) == "self._response_queues"
          and chain(body[0].targets[0].slice) == "system_id" and isinstance(body[1], ast.Return) and isinstance(body[1].value, ast.Subscript)
          and chain(body[1].value.value) == "self._response_queues" and chain(body[1].value.slice) == "system_id")
    if not ok:
        raise TranslationError(f"{REL}: _get_queue_for_system: registration not understood")
    return is_call(body[0].value, "queue.Queue") and not body[0].value.args


def removes(cls):
    body = strip(find_method(cls, "_remove_queue").body)
    if not (len(body) == 1 and isinstance(body[0], ast.Delete) and isinstance(body[0].targets[0], ast.Subscript) and chain(body[0].targets[0].value) == "self._response_queues"
            and chain(body[0].targets[0].slice) == "system_id"):
        raise TranslationError(f"{REL}: _remove_queue is not `del self._response_queues[system_id]`")


def steps(stmts, sysvar, qvar, respvar, fresh, what):
    ops = []
    for st in strip(stmts):
        if isinstance(st, ast.Assign) and len(st.targets) == 1 and isinstance(st.targets[0], ast.Name):
            name, val = st.targets[0].id, st.value
            if is_call(val, "self.get_next_system_counter") and not val.args:
                sysvar[0] = name
                ops.append("QAlloc")
                continue
            if is_call(val, "self._get_queue_for_system") and len(val.args) == 1 and chain(val.args[0]) == sysvar[0]:
                qvar[0] = name
                ops.append(f"QRegister {'true' if fresh else 'false'}")
                continue
            if is_call(val, "self._create_message_for_function"):
                continue
        if isinstance(st, ast.If) and not st.orelse and isinstance(st.test, ast.UnaryOp) and isinstance(st.test.op, ast.Not) and is_call(st.test.operand, "self.send_message"):
            inner = steps(st.body, sysvar, qvar, respvar, fresh, what)
            ops.append("QSend")
            ops.append("QOnFailure [" + "; ".join(inner) + "]")
            continue
        if isinstance(st, ast.Try) and len(st.body) == 1 and len(st.handlers) == 1 and not st.orelse and not st.finalbody and chain(st.handlers[0].type) == "queue.Empty":
            a = st.body[0]
            hb = strip(st.handlers[0].body)
            if (isinstance(a, ast.Assign) and isinstance(a.targets[0], ast.Name) and isinstance(a.value, ast.Call) and chain(a.value.func) == f"{qvar[0]}.get"
                    and len(hb) == 1 and isinstance(hb[0], ast.Assign) and isinstance(hb[0].targets[0], ast.Name) and hb[0].targets[0].id == a.targets[0].id
                    and isinstance(hb[0].value, ast.Constant) and hb[0].value.value is None):
                respvar[0] = a.targets[0].id
                ops.append("QWait")
                continue
        if isinstance(st, ast.Expr) and is_call(st.value, "self._remove_queue") and len(st.value.args) == 1 and chain(st.value.args[0]) == sysvar[0]:
            ops.append("QRemove")
            continue
        if isinstance(st, ast.Return):
            if isinstance(st.value, ast.Constant) and st.value.value is None:
                ops.append("QReturnNone")
                continue
            if isinstance(st.value, ast.Name) and st.value.id == respvar[0]:
                ops.append("QReturnResponse")
                continue
        raise TranslationError(f"{what}: statement not understood: {ast.dump(st)[:130]}")
    return ops


def generate() -> str:
    cls = find_class(parse(REL), "Protocol", REL)
    fresh = fresh_queue(cls)
    removes(cls)
    fn = find_method(cls, "send_and_waitfor_response")
    ops = steps(fn.body, [None], [None], [None], fresh, f"{REL}: Protocol.send_and_waitfor_response")
    return "\n".join(["(* GENERATED by harness/gen_request.py from Protocol.send_and_waitfor_response, _get_queue_for_system, _remove_queue - do not edit. *)",
                      "From SG Require Import Base.Prelude.", "",
                      "Inductive req_op := QAlloc | QRegister (fresh : bool) | QSend | QOnFailure (ops : list req_op) | QWait | QRemove | QReturnResponse | QReturnNone.", "",
                      "Definition request_ops : list req_op := [" + "; ".join(ops) + "].", ""])


if __name__ == "__main__":
    try:
        changed = write_if_changed(os.path.join(GEN_DIR, "Request.v"), generate())
        print(f"gen_request: {'updated' if changed else 'unchanged'}")
    except TranslationError as exc:
        print(f"TRANSLATION-ERROR gen_request: {exc}")
        sys.exit(3)
