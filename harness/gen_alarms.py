"""Translator: AlarmCapability.set_alarm / clear_alarm -> coq/Gen/Alarms.v (fail-closed).

Both methods are read statement by statement and emitted as the steps they are, in source order:

    if alid not in self.alarms: raise ValueError(...)                       ARaiseIfUnknown
    if self.alarms[alid].set: return      / if not ...set: return           AReturnIfSet b        (nothing to do when the state is b already)
    self.alarms[alid].set = True / False                                    ASetFlag b
    if self.alarms[alid].enabled: self.send_and_waitfor_response(S5F1 {ALCD: code [| ALARM_SET], ALID, ALTX})      AReportIfEnabled with_set_bit
    self.trigger_collection_events([self.alarms[alid].ce_on / ce_off])      ATrigger "ce_on" / "ce_off"

Proofs/AlarmsProofs.v proves Model/EquipData.v's steps for set_alarm / clear_alarm equal to these sequences carried out - in particular the
state changes BEFORE the report goes out (D63).
"""
from __future__ import annotations

import ast
import os
import sys

from astutil import GEN_DIR, TranslationError, coq_str, find_class, find_method, parse, write_if_changed

REL = "secsgem/gem/alarm_capability.py"


def chain(node):
    out = []
    while isinstance(node, ast.Attribute):
        out.append(node.attr)
        node = node.value
    if isinstance(node, ast.Name):
        out.append(node.id)
    return ".".join(reversed(out))


def is_call(node, name):
    return isinstance(node, ast.Call) and chain(node.func) == name


def alarm_attr(node, attr):
    """self.alarms[alid].<attr>"""
    return (isinstance(node, ast.Attribute) and node.attr == attr and isinstance(node.value, ast.Subscript) and chain(node.value.value) == "self.alarms"
            and chain(node.value.slice) == "alid")


def ops_of(cls, name):
    what = f"{REL}: AlarmCapability.{name}"
    fn = find_method(cls, name)
    if [a.arg for a in fn.args.args] != ["self", "alid"]:
        raise TranslationError(f"{what}: signature")
    out = []
    for st in [s for s in fn.body if not (isinstance(s, ast.Expr) and isinstance(s.value, ast.Constant))]:
        if isinstance(st, ast.If) and not st.orelse and isinstance(st.test, ast.Compare) and chain(st.test.left) == "alid" and isinstance(st.test.ops[0], ast.NotIn) \
                and chain(st.test.comparators[0]) == "self.alarms" and len(st.body) == 1 and isinstance(st.body[0], ast.Raise):
            out.append("ARaiseIfUnknown")
            continue
        if isinstance(st, ast.If) and not st.orelse and len(st.body) == 1 and isinstance(st.body[0], ast.Return) and st.body[0].value is None:
            t = st.test
            if alarm_attr(t, "set"):
                out.append("AReturnIfSet true")
                continue
            if isinstance(t, ast.UnaryOp) and isinstance(t.op, ast.Not) and alarm_attr(t.operand, "set"):
                out.append("AReturnIfSet false")
                continue
        if isinstance(st, ast.Assign) and len(st.targets) == 1 and alarm_attr(st.targets[0], "set") and isinstance(st.value, ast.Constant) and isinstance(st.value.value, bool):
            out.append(f"ASetFlag {'true' if st.value.value else 'false'}")
            continue
        if isinstance(st, ast.If) and not st.orelse and alarm_attr(st.test, "enabled") and len(st.body) == 1 and isinstance(st.body[0], ast.Expr) \
                and is_call(st.body[0].value, "self.send_and_waitfor_response") and len(st.body[0].value.args) == 1:
            fn5 = st.body[0].value.args[0]
            if not (isinstance(fn5, ast.Call) and is_call(fn5.func, "self.stream_function") and [getattr(a, "value", None) for a in fn5.func.args] == [5, 1]
                    and len(fn5.args) == 1 and isinstance(fn5.args[0], ast.Dict)):
                raise TranslationError(f"{what}: the report is not an S5F1")
            d = {k.value: v for k, v in zip(fn5.args[0].keys, fn5.args[0].values)}
            if set(d) != {"ALCD", "ALID", "ALTX"} or chain(d["ALID"]) != "alid" or not alarm_attr(d["ALTX"], "text"):
                raise TranslationError(f"{what}: the S5F1 does not carry ALCD, ALID, ALTX of the alarm")
            alcd = d["ALCD"]
            if alarm_attr(alcd, "code"):
                out.append("AReportIfEnabled false")
                continue
            if isinstance(alcd, ast.BinOp) and isinstance(alcd.op, ast.BitOr) and alarm_attr(alcd.left, "code") and chain(alcd.right).endswith("ALCD.ALARM_SET"):
                out.append("AReportIfEnabled true")
                continue
            raise TranslationError(f"{what}: ALCD of the report not understood")
        if isinstance(st, ast.Expr) and is_call(st.value, "self.trigger_collection_events") and len(st.value.args) == 1 and isinstance(st.value.args[0], ast.List) \
                and len(st.value.args[0].elts) == 1 and isinstance(st.value.args[0].elts[0], ast.Attribute) and alarm_attr(st.value.args[0].elts[0], st.value.args[0].elts[0].attr):
            out.append(f"ATrigger {coq_str(st.value.args[0].elts[0].attr)}")
            continue
        raise TranslationError(f"{what}: statement not understood: {ast.dump(st)[:130]}")
    return out


def generate() -> str:
    cls = find_class(parse(REL), "AlarmCapability", REL)
    return "\n".join(["(* GENERATED by harness/gen_alarms.py from AlarmCapability.set_alarm / clear_alarm - do not edit. *)", "From SG Require Import Base.Prelude.", "",
                      "Inductive alarm_op := ARaiseIfUnknown | AReturnIfSet (b : bool) | ASetFlag (b : bool) | AReportIfEnabled (with_set_bit : bool) | ATrigger (which : string).", "",
                      "Definition set_alarm_ops : list alarm_op := [" + "; ".join(ops_of(cls, "set_alarm")) + "].",
                      "Definition clear_alarm_ops : list alarm_op := [" + "; ".join(ops_of(cls, "clear_alarm")) + "].", ""])


if __name__ == "__main__":
    try:
        changed = write_if_changed(os.path.join(GEN_DIR, "Alarms.v"), generate())
        print(f"gen_alarms: {'updated' if changed else 'unchanged'}")
    except TranslationError as exc:
        print(f"TRANSLATION-ERROR gen_alarms: {exc}")
        sys.exit(3)
