"""C03 — every catalogued stream/function round-trips and is found by its S/F numbers."""
from __future__ import annotations

import inspect
import types

import c01
import coqlit as L
import common
import valrig

import secsgem.secs.functions as F
from secsgem.secs import variables as V
from secsgem.secs.functions.streams_functions import StreamsFunctions

KINDS = {"Binary", "Boolean", "String", "JIS8", "U1", "U2", "U4", "U8", "I1", "I2", "I4", "I8", "F4", "F8"}


def functions():
    out = []
    for name in sorted(dir(F)):
        cls = getattr(F, name)
        if inspect.isclass(cls) and issubclass(cls, F.SecsStreamFunction) and cls is not F.SecsStreamFunction:
            out.append(cls)
    return out


def type_of(var):
    """harness type description of a generated variable tree"""
    if isinstance(var, V.Array):
        return ("arr", type_of(V.functions.generate(var.item_decriptor)), var.count)
    if isinstance(var, V.List):
        return ("rec", [(k, type_of(v)) for k, v in var.data.items()])
    cls = type(var)
    typ = cls.__type__
    if typ is V.Dynamic:
        return ("dyn", [a.__name__ for a in cls.__allowedtypes__], cls.__count__)
    return ("scal", typ.__name__, cls.__count__)


# one container decodes every message of a run, and what it returned is read only after ALL messages have been decoded: a decoded function
# object belongs to its message, later messages of the same stream/function must not change it
SHARED = StreamsFunctions()
DEFERRED = []


def first_leaf(var):
    """the first scalar variable reachable through the members of a function's data"""
    if isinstance(var, V.Dynamic):
        return first_leaf(var.value) if var.value is not None else None
    if isinstance(var, V.List):
        for k in var.data:
            leaf = first_leaf(var.data[k])
            if leaf is not None:
                return leaf
        return None
    if isinstance(var, V.Array):
        for item in var.data:
            leaf = first_leaf(item)
            if leaf is not None:
                return leaf
        return None
    return var


def edit_leaf(leaf):
    """change the variable through itself (not through the function object that holds it); False if nothing could be changed"""
    old = leaf.get()
    for new in ((b"\x02",) if isinstance(leaf, V.Binary) else (True, False) if isinstance(leaf, V.Boolean) else ("e", "") if isinstance(leaf, (V.String, V.JIS8))
                else (1.0, 0.0) if type(leaf).__name__ in ("F4", "F8") else (1, 0)):
        try:
            leaf.set(new)
        except Exception:  # noqa: BLE001
            continue
        if leaf.get() != old:
            return True
    return False


def observe_edit(cls, p):
    """construct, encode once, change a nested variable through the variable, encode again: the second body is the encoding of the
    value the object holds then"""
    if p is None:
        return None
    try:
        fn = cls(valrig.to_py(p))
        fn.encode()
    except Exception:  # noqa: BLE001
        return None
    if not isinstance(fn.data, (V.List, V.Array)):
        return None              # a single item: there is no nested variable
    leaf = first_leaf(fn.data)
    if leaf is None or leaf is fn.data or not edit_leaf(leaf):
        return None
    out = {"ok": True, "val": valrig.snapshot(fn.data), "get": fn.get(), "enc": None, "dec": None, "err": None, "edited": True}
    try:
        out["enc"] = fn.encode()
        msg = types.SimpleNamespace(header=types.SimpleNamespace(stream=cls._stream, function=cls._function), data=out["enc"])
        DEFERRED.append((out, SHARED.decode(msg)))
    except valrig.Unobservable:
        raise
    except Exception as exc:  # noqa: BLE001
        out["err"] = f"edit: {type(exc).__name__}: {exc}"[:200]
    return out


def read_deferred():
    for out, back in DEFERRED:
        try:
            out["dec"] = (type(back).__name__, valrig.snapshot(back.data) if back.data is not None else "VNone")
        except valrig.Unobservable:
            out["unobservable"] = True
    del DEFERRED[:]


def observe(cls, p):
    out = {"ok": False, "val": "VNone", "get": None, "enc": None, "dec": None, "err": None}
    try:
        fn = cls(valrig.to_py(p)) if p is not None else cls()
    except Exception as exc:  # noqa: BLE001
        out["err"] = f"construct: {type(exc).__name__}: {exc}"[:200]
        return out
    out["ok"] = True
    out["val"] = valrig.snapshot(fn.data) if fn.data is not None else "VNone"
    out["get"] = fn.get()
    try:
        enc = fn.encode()
    except Exception as exc:  # noqa: BLE001
        out["err"] = f"encode: {type(exc).__name__}: {exc}"[:200]
        return out
    out["enc"] = enc
    try:
        msg = types.SimpleNamespace(header=types.SimpleNamespace(stream=cls._stream, function=cls._function), data=enc)
        DEFERRED.append((out, SHARED.decode(msg)))
    except valrig.Unobservable:
        raise
    except Exception as exc:  # noqa: BLE001
        out["err"] = f"decode: {type(exc).__name__}: {exc}"[:200]
    return out


def literal(cls, p, o):
    def dec(d):
        return f"({L.string(d[0])}, {d[1]})"
    return "{| fo_s := %d; fo_f := %d; fo_in := %s; fo_ok := %s; fo_val := %s; fo_get := %s; fo_enc := %s; fo_dec := %s; fo_edited := %s |}" % (
        cls._stream, cls._function, L.plain(p), L.bool_(o["ok"]), o["val"], L.plain(o["get"]) if o["ok"] else "PNone", L.opt(o["enc"], L.nlist), L.opt(o["dec"], dec),
        L.bool_(bool(o.get("edited"))))


def gen_cases(rnd, tier):
    cases = []
    per = 12 if tier == "quick" else 150
    for cls in functions():
        fn = cls()
        if fn.data is None:
            cases.append((cls, None))
            continue
        t = type_of(fn.data)
        cases.append((cls, None))
        for k in range(per):
            n = None
            if k == 0:
                n = 0
            elif k == 1:
                n = 1
            elif k == 2:
                n = rnd.choice([5, 17, 300 if tier == "thorough" else 40])
            cases.append((cls, c01.rand_value(t, rnd, n=n) if t[0] == "arr" else c01.rand_value(t, rnd)))
            if k in (1, 4):
                # the same kind of value, encoded once, then changed through one of its nested variables and encoded again
                cases.append((cls, ("EDIT", c01.rand_value(t, rnd, n=2) if t[0] == "arr" else c01.rand_value(t, rnd))))
    return cases


HEADER = "From SG Require Import Base.Prelude Base.Kinds Model.Secs2 Run.C01Run Run.C03Run.\nOpen Scope N_scope.\n"


def evaluate(cases, prefix, shard=300):
    raw = []
    for cls, p in cases:
        if valrig.has_nan(p):
            raw.append(None)
            continue
        try:
            raw.append(observe(cls, p) if not (isinstance(p, tuple) and len(p) == 2 and p[0] == "EDIT") else observe_edit(cls, p[1]))
        except valrig.Unobservable:
            raw.append(None)
    read_deferred()          # every message has been decoded: now look at what each decode returned
    obs = []
    for (cls, p), o in zip(cases, raw):
        if o is None or o.get("unobservable"):
            obs.append(None)
        else:
            obs.append((o, literal(cls, p[1] if o.get("edited") else p, o)))
    idx = [i for i, x in enumerate(obs) if x is not None]
    shards, maps = [], []
    for s in range(0, len(idx), shard):
        part = idx[s : s + shard]
        maps.append(part)
        shards.append("Definition cs : list fobs := [\n" + ";\n".join(obs[i][1] for i in part) + "\n].\nEval vm_compute in run_fcases cs.\n")
    outs = common.coq_eval_shards(prefix, HEADER, shards)
    bad, skipped, checked, errors = [], 0, 0, []
    for part, (ok, text) in zip(maps, outs):
        parsed = common.parse_triples(text) if ok else None
        if parsed is None:
            errors.append(text[-800:])
            continue
        b, sk, ch = parsed
        skipped += sk
        checked += ch
        bad.extend((part[i], m, s) for i, m, s in b)
    return obs, bad, {"skipped_unmodelled": skipped, "spec_checked": checked, "eval_errors": errors, "observed": len(idx)}


SPEC_CODES = {30: "a function built from a conforming value could not be encoded", 31: "the message body is not the SEMI E5 encoding of the value",
              32: "the body could not be decoded when looked up by stream/function", 34: "the decoded function carries a different value",
              35: "the stream/function lookup returned a different class"}


def data_item_values_sweep():
    """A data item of a fixed type given to a data item that admits that type among several (MDLN('x') as MID, ALID(7) as a
    DATAID ...): it is a typed value like the plain variable it is made of - accepted exactly when that is, with the same bytes."""
    import secsgem.secs.data_items as di
    import secsgem.secs.variables as var
    classes = [c for c in vars(di).values() if isinstance(c, type) and issubclass(c, di.DataItemBase) and c is not di.DataItemBase and getattr(c, "__type__", None)]
    fixed = [c for c in classes if c.__type__ is not var.Dynamic and c.__type__ is not var.Array]
    dyn = [c for c in classes if c.__type__ is var.Dynamic]
    samples = {var.String: ["", "x", "abcde" * 20], var.Binary: [b"", b"\x01", bytes(70)], var.Boolean: [True], var.U1: [7], var.U2: [300], var.U4: [70000], var.U8: [2**40],
               var.I1: [-7], var.I2: [-300], var.I4: [-70000], var.I8: [-2**40], var.F4: [1.5], var.F8: [2.5], var.JIS8: ["x"]}
    diffs, tried = [], 0
    for d in dyn:
        for f in fixed:
            if f.__type__ not in d.__allowedtypes__:
                continue
            for raw in samples.get(f.__type__, []):
                try:
                    item = f(raw)
                except Exception:  # noqa: BLE001
                    continue
                tried += 1

                def outcome(value):
                    try:
                        return d(value).encode().hex()
                    except (ValueError, IndexError, UnicodeError):
                        return "rejected"
                    except Exception as exc:  # noqa: BLE001
                        return "raised " + type(exc).__name__

                as_item, as_plain = outcome(item), outcome(f.__type__(item.get()))
                if as_item != as_plain and len(diffs) < 5:
                    diffs.append({"into": d.__name__, "value": f"{f.__name__}({raw!r})"[:80], "as_data_item": as_item[:60], "as_plain_variable": as_plain[:60]})
    # the same for a value that comes wrapped in a Dynamic (a plain Dynamic, or a data item that is one): what counts is the variable it holds
    for d in dyn:
        for typ, raws in samples.items():
            if typ not in d.__allowedtypes__:
                continue
            for raw in raws + ([raws[-1] * 4] if typ in (var.String, var.Binary) else []):
                wrappers = [lambda r=raw, t=typ: var.Dynamic([t], r)] + [lambda r=raw, t=typ, d2=d2: d2(t(r)) for d2 in dyn[:6] if typ in d2.__allowedtypes__ and getattr(d2, "__count__", -1) in (-1, None)]
                for mk in wrappers:
                    try:
                        wrapped = mk()
                    except Exception:  # noqa: BLE001
                        continue
                    tried += 1

                    def outcome2(value):
                        try:
                            return d(value).encode().hex()
                        except (ValueError, IndexError, UnicodeError):
                            return "rejected"
                        except Exception as exc:  # noqa: BLE001
                            return "raised " + type(exc).__name__

                    as_wrapped, as_plain = outcome2(wrapped), outcome2(typ(raw))
                    if as_wrapped != as_plain and len(diffs) < 5:
                        diffs.append({"into": d.__name__, "value": f"{type(wrapped).__name__} holding {typ.__name__}({raw!r})"[:90], "as_wrapped": as_wrapped[:60], "as_plain_variable": as_plain[:60]})
    return tried, diffs


def plain_readback_sweep():
    """plain Python values given to a data item are read back unchanged: for every data item that takes several types, a bytes value
    (with bytes that are no text), a str, an int, a bool and a float come back as what they were - same python type, same value"""
    import secsgem.secs.data_items as di
    import secsgem.secs.variables as var
    diffs, tried = [], 0
    for name in sorted(n for n in vars(di) if n.isupper()):
        cls = getattr(di, name)
        if not (isinstance(cls, type) and issubclass(cls, di.DataItemBase)) or getattr(cls, "__type__", None) is not var.Dynamic:
            continue
        allowed = set(getattr(cls, "__allowedtypes__", []) or [])
        ints = {var.U1, var.U2, var.U4, var.U8, var.I1, var.I2, var.I4, var.I8}
        for value in (b"\x00\x01\xfe\xff", "abc", 7, True, 2.5, b"ab"):
            # only values that conform to the item: one of its types is the type for this kind of python value
            conforms = ((isinstance(value, bytes) and var.Binary in allowed) or (isinstance(value, str) and (var.String in allowed or var.JIS8 in allowed))
                        or (isinstance(value, bool) and var.Boolean in allowed) or (type(value) is int and allowed & ints) or (isinstance(value, float) and (allowed & {var.F4, var.F8})))
            if not conforms:
                continue
            try:
                item = cls(value)
                back = item.get()
                fresh = cls()
                fresh.decode(item.encode())
                again = fresh.get()
            except (ValueError, TypeError, IndexError, UnicodeError, OverflowError):
                continue
            tried += 1
            same = (type(back) is type(value) and back == value and type(again) is type(value) and again == value)
            if not same and len(diffs) < 6:
                diffs.append({"data_item": name, "given": repr(value), "read_back": repr(back), "after_encode_decode": repr(again), "sent_as": item.encode()[:6].hex()})
    return tried, diffs


def nested_list_values_sweep():
    """Every data item that admits a list (SV, V, DVVAL, ECV ...): list values that themselves contain lists, to depth 3, built as typed
    values, compared with the E5 bytes written out here by hand, decoded by a fresh instance and encoded again."""
    import secsgem.secs.data_items as di
    import secsgem.secs.variables as var
    from secsgem.secs.variables.dynamic import ANYVALUE

    def e5(tree):     # tree: int (U1) | str (A) | list
        if isinstance(tree, list):
            body = b"".join(e5(k) for k in tree)
            return bytes([0x01, len(tree)]) + body
        if isinstance(tree, str):
            return bytes([0x41, len(tree)]) + tree.encode("ascii")
        return bytes([0xA5, 1, tree])

    def typed(tree):
        if isinstance(tree, list):
            return var.Array(ANYVALUE, [typed(k) for k in tree])
        return var.String(tree) if isinstance(tree, str) else var.U1(tree)

    trees = [[], [[]], [[], []], [[5]], [5, [6, "x"]], [[[7]]], [[[]], "ab", [1, [2, [3]]]], [["a", ["b"]], []]]
    classes = [c for c in vars(di).values() if isinstance(c, type) and issubclass(c, di.DataItemBase) and getattr(c, "__type__", None) is var.Dynamic
               and var.Array in (getattr(c, "__allowedtypes__", None) or [])]
    problems, tried = [], 0
    for cls in classes:
        for tree in trees:
            tried += 1
            want = e5(tree)
            try:
                enc = cls(typed(tree)).encode()
                back = cls()
                end = back.decode(want)
                again = back.encode()
                ok = enc == want and again == want and end == len(want)
                got = {"encoded": enc.hex(), "decoded_and_encoded_again": again.hex()}
            except Exception as exc:  # noqa: BLE001
                ok, got = False, {"raised": f"{type(exc).__name__}: {exc}"[:160]}
            if not ok and len(problems) < 5:
                problems.append({"data_item": cls.__name__, "value": repr(tree), "e5_bytes": want.hex(), **got})
    return tried, problems, [c.__name__ for c in classes]


def container_isolation():
    """settings.streams_functions.update(...) is the documented way to replace or add a function FOR ONE HANDLER: a container made
    afterwards still finds every catalogued function, and only those."""
    import secsgem.secs
    from secsgem.secs.functions import StreamsFunctions

    class Replaced(secsgem.secs.SecsStreamFunction):
        _stream, _function = 1, 12
        _data_format = "< MDLN >"
        _to_host = _to_equipment = True
        _has_reply = _is_reply_required = _is_multi_block = False

    class Added(secsgem.secs.SecsStreamFunction):
        _stream, _function = 99, 1
        _data_format = "< MDLN >"
        _to_host = _to_equipment = True
        _has_reply = _is_reply_required = _is_multi_block = False

    before = {(c._stream, c._function): c for c in functions()}
    shipped = list(getattr(F, "secs_streams_functions", []))
    mine = StreamsFunctions()
    mine.update(Replaced)
    mine.update(Added)
    fresh = StreamsFunctions()
    problems = []
    if mine.function(1, 12) is not Replaced or mine.function(99, 1) is not Added:
        problems.append("the updated container does not return the functions it was given")
    for key, cls in before.items():
        if fresh.function(*key) is not cls:
            problems.append(f"a container created afterwards returns {fresh.function(*key)!r} for S{key[0]}F{key[1]} instead of the catalogued {cls.__name__}")
    if fresh.function(99, 1) is not None:
        problems.append("a container created afterwards knows S99F1, which was added to another container only")
    if list(getattr(F, "secs_streams_functions", [])) != shipped:
        problems.append("the shipped list secs_streams_functions itself was changed")
    return problems


def run(tier, replay=None):
    report = common.Report("C03", tier)
    if replay:
        import json
        print(json.dumps(json.load(open(replay)), indent=1)[:3000])
        return 0
    proof = common.prove(report, "C03", ["varconsts", "jis8", "dataitems", "catalogue"], extra_targets=["Run/C03Run.vo"])
    ok, log = common.coq_make(["Run/C03Run.vo"])
    if not ok:
        report.violation({"kind": "broken-obligation", "obligation": "model Run/C03Run.vo does not build against the regenerated catalogue", "detail": log[-1500:], "also": proof.get("broken")}, False, tag="modelbuild")
        return report.finish()
    common.coq_make(["Proofs/CatalogueProofs.vo"])
    iso = container_isolation()
    report.coverage["container_isolation_problems"] = iso
    if iso:
        report.violation({"kind": "counterexample", "what": "replacing / adding a function in one StreamsFunctions container changed what another container (or the catalogue) finds by stream/function",
                          "problems": iso[:5]}, True, tag="isolation")
    ntried, nproblems, nclasses = nested_list_values_sweep()
    report.coverage["nested_list_values"] = {"data_items_admitting_lists": nclasses, "combinations": ntried, "problems": len(nproblems)}
    if nproblems:
        report.violation({"kind": "counterexample", "what": "a list value containing lists, for a data item that admits lists, is not encoded as E5 prescribes / not decoded back", **nproblems[0],
                          "count": len(nproblems)}, True, tag="nestedlist")
    rtried, rdiffs = plain_readback_sweep()
    report.coverage["plain_values_read_back"] = {"combinations": rtried, "different": rdiffs}
    if rdiffs:
        report.violation({"kind": "counterexample", "what": "a plain python value given to a data item was not read back unchanged", **rdiffs[0], "count": len(rdiffs)}, True, tag="readback")
    tried, diffs = data_item_values_sweep()
    report.coverage["data_item_instances_as_values"] = {"combinations": tried, "different": len(diffs)}
    if diffs:
        report.violation({"kind": "counterexample", "what": "a data item instance given as the value of another data item is not treated like the typed variable it is made of",
                          **diffs[0], "count": len(diffs)}, True, tag="dataitemvalue")
    # search: which catalogue entry breaks which consistency rule (names the concrete function when the table theorem no longer checks)
    ok2, out = common.coq_eval("c03_facts", "From SG Require Import Base.Prelude Model.Functions Proofs.CatalogueProofs Gen.Catalogue.\n",
                               "Eval vm_compute in (unique_sf catalogue, all_parse catalogue, classes_eq_yaml, pairing_ok catalogue,\n"
                               "  map f_name (filter (fun e => negb (length (filter (same_sf (f_stream e) (f_function e)) catalogue) =? 1)%nat) catalogue),\n"
                               "  map f_name (filter (fun e => negb (is_ok (fn_structure e))) catalogue),\n"
                               "  map f_name (filter (fun e => match find_sf yaml_catalogue (f_stream e) (f_function e) with Some y => negb (agree e y) | None => true end) catalogue),\n"
                               "  map f_name (filter (fun y => match find_sf catalogue (f_stream y) (f_function y) with Some _ => false | None => true end) yaml_catalogue),\n"
                               "  pairing_exceptions catalogue, length catalogue).")
    import re
    flat = " ".join(out.split())
    m = re.search(r"= \((true|false), (true|false), (true|false), (true|false), (\[.*?\]), (\[.*?\]), (\[.*?\]), (\[.*?\]), (\[.*?\]), (\d+)", flat) if ok2 else None
    if m:
        names = lambda t: re.findall(r'"([^"]+)"', t)  # noqa: E731
        facts = {"duplicate_stream_function": names(m.group(5)), "structure_not_accepted": names(m.group(6)), "class_differs_from_yaml": names(m.group(7)),
                 "in_yaml_but_not_a_class": names(m.group(8)), "pairing_or_reply_flag": names(m.group(9))}
        report.coverage["catalogue_search"] = {"entries": int(m.group(10)), **{k: v for k, v in facts.items()}}
        for rule, offenders in facts.items():
            if offenders:
                report.violation({"kind": "counterexample", "what": f"catalogue consistency rule '{rule}' fails", "functions": offenders,
                                  "broken_obligation": proof.get("broken")}, True, tag=rule)
        if any(facts.values()):
            return report.finish()
    rnd = common.rng("c03")
    cases = gen_cases(rnd, tier)
    obs, bad, stats = evaluate(cases, "c03")
    shim_cases = [((("fn", c.__name__),), p, b"") for c, p in cases]
    shim_obs = [None if o is None else ({"val": o[0]["val"], **{k: v for k, v in o[0].items() if k != "val"}}, o[1]) for o in obs]
    c01.decide(report, "C03", shim_cases, shim_obs, bad, stats, proof, SPEC_CODES, c01.MODEL_CODES)
    import hashlib
    from collections import Counter
    cov = report.coverage
    cov["evaluations"] = stats["observed"]
    cov["distinct_nontrivial"] = len({hashlib.sha256(o[1].encode()).hexdigest() for o in obs if o is not None and o[0]["enc"]})
    cov["rule"] = ("for each of the catalogued functions: no value, then values generated from its own structure (read off the generated variable tree): open lists with "
                   "0, 1 and more elements, each alternative type of each Dynamic item (plain and typed wrappers), count-limited items at their limits, records as "
                   "positional lists and as partial dicts, and non-conforming values; observed: constructor result, internal value, get(), encode(), "
                   "StreamsFunctions().decode(header S/F only, body); non-trivial = a non-empty body was produced")
    cov["correspondence"] = {k: v for k, v in stats.items() if k != "eval_errors"}
    cov["distribution"] = {"functions": len({c.__name__ for c, _ in cases}), "cases_per_function": dict(Counter(Counter(c.__name__ for c, _ in cases).values()))}
    cov["samples"] = [f"{c.__name__}({p!r})"[:300] for c, p in cases[:: max(1, len(cases) // 6)][:6]]
    return report.finish()
