"""C10 — the TCP transport delivers every accepted byte exactly once and in order."""
from __future__ import annotations

import errno
import os
import socket
import threading
import time

import common

import secsgem.common.tcp_connection as tcpmod
import secsgem.hsms

threading.excepthook = lambda args: None  # the listener thread prints EBADF when disable() closes its socket; stray thread deaths are observed through deadlines


class OracleExhausted(BaseException):
    pass


class ScriptedSocket:
    """a socket whose send() answers as the oracle says; select() sees it as writable"""

    def __init__(self, oracle):
        self.oracle = list(oracle)
        self.a, self.b = socket.socketpair()
        self.taken = bytearray()
        self.calls = 0

    def fileno(self):
        return self.a.fileno()

    def send(self, data):
        self.calls += 1
        if not self.oracle:
            raise OracleExhausted()
        r = self.oracle.pop(0)
        if r[0] == "take":
            k = min(max(r[1], 1), len(data))
            self.taken += bytes(data[:k])
            return k
        if r[0] == "block":
            raise BlockingIOError(errno.EAGAIN, "would block")
        raise OSError(errno.EPIPE, "broken pipe")

    def close(self):
        self.a.close()
        self.b.close()


class BareTcpConnection(tcpmod.TcpConnection):
    """TcpConnection with the two abstract methods filled in; send_data is the library's"""

    def enable(self):
        pass

    def disable(self):
        pass


def scripted_case(oracle, data):
    settings = secsgem.hsms.HsmsSettings(address="127.0.0.1", port=1, connect_mode=secsgem.hsms.HsmsConnectMode.PASSIVE)
    conn = BareTcpConnection(settings)
    conn.select_timeout = 0.01
    sock = ScriptedSocket(oracle)
    conn._sock = sock
    try:
        result = conn.send_data(bytes(data))
        res = "(Some true)" if result is True else "(Some false)"
    except OracleExhausted:
        res = "None"
    finally:
        sock.close()
    olit = "[" + ";".join({"take": lambda r: f"RTake {r[1]}", "block": lambda r: "RWouldBlock", "error": lambda r: "RError"}[r[0]](r) for r in oracle) + "]"
    nl = lambda bs: "[" + ";".join(f"{b}%N" for b in bs) + "]"  # noqa: E731
    return "{| o_oracle := " + olit + "; o_data := " + nl(data) + "; o_taken := " + nl(sock.taken) + "; o_result := " + res + " |}"


def gen_scripted(rnd, tier):
    cases = []
    n = 150 if tier == "quick" else 1500
    for _ in range(n):
        size = rnd.choice([0, 1, 2, 5, 17, 64, 200])
        data = bytes(rnd.randrange(256) for _ in range(size))
        oracle = []
        for _ in range(rnd.randint(0, 8)):
            c = rnd.random()
            if c < 0.65:
                oracle.append(("take", rnd.choice([1, 1, 2, 3, 10, 50, size or 1, size + 5, 1000])))
            elif c < 0.9:
                oracle.append(("block",))
            else:
                oracle.append(("error",))
        if rnd.random() < 0.6:
            oracle.append(("take", 10 ** 6))
        cases.append((oracle, data))
    cases += [([("take", 2)], b"\x01\x02\x03"), ([("take", 1), ("take", 1), ("take", 1)], b"abc"), ([("block",), ("take", 2), ("error",)], b"abcd"), ([], b""), ([], b"x"), ([("error",)], b"xyz")]
    return cases


def later_packet_fails_case(packet, size, fail_at):
    """send_message through the real send queue, the connection's send_data failing at its fail_at-th call (the frame is cut into
    packets of `packet` bytes): the call must report failure - success is only for a frame that was written completely"""
    import protorig
    from secsgem.hsms.header import HsmsHeader, HsmsSType
    from secsgem.hsms.message import HsmsMessage
    rig = protorig.HsmsRig(active=False, inert=True)
    try:
        if not rig.connect():
            raise RuntimeError("rig did not settle after connect")
        rig.proto.send_packet_size = packet
        calls = []

        def scripted(data):
            calls.append(len(data))
            if len(calls) > 1:
                time.sleep(0.03)      # writing takes time: a sender that was told a result too early has gone on by now
            return len(calls) != fail_at

        rig.conn.send_data = scripted
        msg = HsmsMessage(HsmsHeader(91, 0, 1, 1, False, 0, HsmsSType.DATA_MESSAGE), bytes(size))
        frame_len = len(msg.blocks[0].encode())
        result = common.with_deadline(lambda: rig.proto.send_message(msg), 20.0)
        rig.settle()
    finally:
        rig.stop()
    packets = -(-frame_len // packet)
    return {"packet_size": packet, "frame_length": frame_len, "packets": packets, "send_data_fails_at_call": fail_at, "send_data_calls": len(calls), "reported": bool(result),
            "written_completely": fail_at > packets}


def send_on_closed_socket_case():
    """the receiver thread has closed the socket (the peer went away) but the protocol has not yet been told that the link is down:
    a send issued in that window must come back with failure.  The window is forced by closing the socket object the way the
    receiver thread does, on a real loopback connection."""
    tcpmod.TcpConnection.select_timeout = 0.02
    port = common.own_port(3)
    settings = secsgem.hsms.HsmsSettings(address="127.0.0.1", port=port, connect_mode=secsgem.hsms.HsmsConnectMode.PASSIVE, device_id=0)
    proto = secsgem.hsms.HsmsProtocol(settings)
    obs = {}
    proto.enable()
    try:
        deadline = time.monotonic() + 20
        while True:
            try:
                sock = socket.create_connection(("127.0.0.1", port), timeout=2)
                break
            except OSError:
                if time.monotonic() > deadline:
                    raise
                time.sleep(0.01)
        deadline = time.monotonic() + 20
        while proto.connection_state.current.value != 2 and time.monotonic() < deadline:
            time.sleep(0.005)
        from secsgem.hsms.header import HsmsHeader, HsmsSType
        from secsgem.hsms.message import HsmsMessage
        proto._connection._socket.close()
        box = {}
        th = threading.Thread(target=lambda: box.setdefault("r", proto.send_message(HsmsMessage(HsmsHeader(7, 0, 1, 1, False, 0, HsmsSType.DATA_MESSAGE), b"x" * 50))), daemon=True)
        th.start()
        th.join(8)
        obs["send_returned"] = not th.is_alive()
        obs["reported"] = box.get("r")
        sock.close()
    finally:
        try:
            common.with_deadline(proto.disable, 15.0)
        except common.Wedged:
            obs["disable_hung"] = True
    return obs


def concurrent_senders_round(port, size):
    """While a big message is on its way to a slowly reading peer, other threads send too (a Linktest.req, a small data message).
    Every send that reports success arrives as ONE contiguous frame: the peer's byte stream is a sequence of exactly the frames sent."""
    from secsgem.hsms.header import HsmsHeader, HsmsSType
    from secsgem.hsms.message import HsmsMessage
    tcpmod.TcpConnection.select_timeout = 0.02
    settings = secsgem.hsms.HsmsSettings(address="127.0.0.1", port=port, connect_mode=secsgem.hsms.HsmsConnectMode.PASSIVE, device_id=0)
    settings.timeouts.t6 = 1
    proto = secsgem.hsms.HsmsProtocol(settings)
    obs = {"size": size}
    proto.enable()
    try:
        deadline = time.monotonic() + 5
        while True:
            try:
                sock = socket.socket(socket.AF_INET, socket.SOCK_STREAM)
                sock.setsockopt(socket.SOL_SOCKET, socket.SO_RCVBUF, 4096)
                sock.connect(("127.0.0.1", port))
                break
            except OSError:
                sock.close()
                if time.monotonic() > deadline:
                    raise
                time.sleep(0.02)
        deadline = time.monotonic() + 5
        while proto.connection_state.current.value != 2 and time.monotonic() < deadline:
            time.sleep(0.005)
        proto._connection._sock.setsockopt(socket.SOL_SOCKET, socket.SO_SNDBUF, 4096)
        big = HsmsMessage(HsmsHeader(77, 0, 1, 1, False, 0, HsmsSType.DATA_MESSAGE), bytes((i * 7 + (i >> 8)) & 0xFF for i in range(size)))
        small = HsmsMessage(HsmsHeader(78, 0, 1, 3, False, 0, HsmsSType.DATA_MESSAGE), b"\x01\x00")
        received = bytearray()
        stop = threading.Event()

        def reader():
            sock.settimeout(0.5)
            while not stop.is_set():
                try:
                    chunk = sock.recv(2048)
                except socket.timeout:
                    continue
                except OSError:
                    break
                if not chunk:
                    break
                received.extend(chunk)
                time.sleep(0.0005)

        rt = threading.Thread(target=reader, daemon=True)
        rt.start()
        results = {}
        t_big = threading.Thread(target=lambda: results.setdefault("big", proto.send_message(big)), daemon=True)
        t_big.start()
        deadline = time.monotonic() + 10
        while len(received) < size // 3 and time.monotonic() < deadline:
            time.sleep(0.002)
        t_lt = threading.Thread(target=lambda: results.setdefault("linktest", proto.send_linktest_req()), daemon=True)      # nobody answers: returns after T6
        t_small = threading.Thread(target=lambda: results.setdefault("small", proto.send_message(small)), daemon=True)
        t_lt.start()
        t_small.start()
        for th in (t_big, t_small, t_lt):
            th.join(60)
        obs["senders_returned"] = not any(th.is_alive() for th in (t_big, t_small, t_lt))
        obs["reported"] = {"big": results.get("big"), "small": results.get("small")}
        want = len(big.blocks[0].encode()) + len(small.blocks[0].encode()) + 14
        deadline = time.monotonic() + 30
        while len(received) < want and time.monotonic() < deadline:
            time.sleep(0.01)
        stop.set()
        rt.join(3)
        # the stream, cut at the length prefixes
        frames, data = [], bytes(received)
        while len(data) >= 4:
            n = int.from_bytes(data[:4], "big") + 4
            if n < 14 or len(data) < n:
                break
            frames.append(data[:n])
            data = data[n:]
        expected = [big.blocks[0].encode(), small.blocks[0].encode()]
        data_frames = [f for f in frames if f[9] == 0]
        linktests = [f for f in frames if f[9] == 5 and len(f) == 14]
        obs["frames_received"] = [len(f) for f in frames]
        obs["trailing_bytes_that_are_no_frame"] = len(data)
        # (next to the two data frames: the Linktest.req of this round, and - when the transfer takes long on a busy machine - further ones of the
        # endpoint's own linktest timer or the Separate.req of the closing endpoint: complete 14-byte control frames between the data frames, never inside one)
        others = [f for f in frames if f[9] != 0]
        obs["stream_is_exactly_the_frames_sent"] = (len(data) == 0 and sorted(data_frames) == sorted(expected) and len(linktests) >= 1
                                                    and all(len(f) == 14 and f[9] in (5, 9) for f in others))
        sock.close()
    finally:
        try:
            common.with_deadline(proto.disable, 15.0)
        except common.Wedged:
            obs["disable_hung"] = True
    return obs


HOLD_BACK = 6000


def reconnect_during_send_round(port, size=12 * 1024 * 1024):
    """A big message is on its way to a peer that does not read (the sender waits for the socket to become writable); the endpoint ends the
    connection and the peer connects again at once.  No byte of the message may reach the second connection, and success is only reported
    if the first connection got all of it (D79)."""
    import secsgem.common
    import secsgem.hsms
    settings = secsgem.hsms.HsmsSettings(address="127.0.0.1", port=port, connect_mode=secsgem.hsms.HsmsConnectMode.PASSIVE)
    conn = secsgem.common.TcpServerConnection(settings)
    up = threading.Event()
    conn.on_connected.register(lambda _: up.set())
    conn.enable()

    def connect():
        for _ in range(800):
            s = socket.socket()
            try:
                s.connect(("127.0.0.1", port))
                s.settimeout(10)
                return s
            except OSError:
                s.close()
                time.sleep(0.005)
        raise common.Wedged("the endpoint does not accept a connection")

    try:
        peer1 = connect()
        if not up.wait(10):
            raise common.Wedged("on_connected was not reported")
        up.clear()
        payload = bytes((i * 7 + i // 251) % 256 for i in range(4096)) * (size // 4096)
        res = []
        sender = threading.Thread(target=lambda: res.append(conn.send_data(payload)), daemon=True)
        sender.start()
        time.sleep(1.0)                # the peer reads nothing: the socket buffers are full, the sender waits in select()
        threading.Thread(target=conn.disconnect, daemon=True).start()
        peer2 = connect()
        up.wait(10)
        got1, got2 = bytearray(), bytearray()

        def drain(sock, into):
            try:
                while True:
                    c = sock.recv(1 << 16)
                    if not c:
                        break
                    into.extend(c)
            except OSError:
                pass

        t1 = threading.Thread(target=drain, args=(peer1, got1), daemon=True)
        t2 = threading.Thread(target=drain, args=(peer2, got2), daemon=True)
        t1.start()
        t2.start()
        sender.join(30)
        returned = not sender.is_alive()
        threading.Thread(target=conn.disable, daemon=True).start()
        t1.join(15)
        t2.join(15)
        return {"size": len(payload), "send_returned": returned, "reported": res[0] if res else None, "first_connection_got": len(got1), "second_connection_got": len(got2),
                "first_is_a_prefix": payload.startswith(bytes(got1)), "first_got_all": bytes(got1) == payload}
    finally:
        try:
            conn.disable()
        except Exception:  # noqa: BLE001
            pass


def loopback_round(port, size, pacing, via_protocol, close_after_send=False, active=False):
    """an HSMS endpoint (passive, or active = it connects to the harness) on the loopback interface sends `size` bytes to a real socket
    that reads with the given pacing"""
    tcpmod.TcpConnection.select_timeout = 0.02
    mode = secsgem.hsms.HsmsConnectMode.ACTIVE if active else secsgem.hsms.HsmsConnectMode.PASSIVE
    settings = secsgem.hsms.HsmsSettings(address="127.0.0.1", port=port, connect_mode=mode, device_id=0)
    proto = secsgem.hsms.HsmsProtocol(settings)
    obs = {"size": size, "pacing": pacing, "via_protocol": via_protocol, "closed_right_after_send": close_after_send, "active_endpoint": active}
    listener = None
    if active:
        listener = socket.socket(socket.AF_INET, socket.SOCK_STREAM)
        listener.setsockopt(socket.SOL_SOCKET, socket.SO_REUSEADDR, 1)
        listener.setsockopt(socket.SOL_SOCKET, socket.SO_RCVBUF, 4096)      # inherited by the accepted socket
        listener.bind(("127.0.0.1", port))
        listener.listen(1)
        listener.settimeout(10)
    proto.enable()
    try:
        deadline = time.monotonic() + 5
        while True:
            if active:
                sock, _addr = listener.accept()
                listener.close()
                break
            try:
                sock = socket.socket(socket.AF_INET, socket.SOCK_STREAM)
                sock.setsockopt(socket.SOL_SOCKET, socket.SO_RCVBUF, 4096)
                sock.connect(("127.0.0.1", port))
                break
            except OSError:
                sock.close()
                if time.monotonic() > deadline:
                    raise
                time.sleep(0.02)
        deadline = time.monotonic() + 5
        while proto.connection_state.current.value != 2 and time.monotonic() < deadline:
            time.sleep(0.005)
        conn = proto._connection
        if not active:
            conn._sock.setsockopt(socket.SOL_SOCKET, socket.SO_SNDBUF, 4096)
        # (active round: the kernel's own send buffer - the send returns while most of the message is still in it)
        sent_evt = threading.Event()
        payload = bytes((i * 7 + (i >> 8)) & 0xFF for i in range(size))
        message = None
        if via_protocol:
            # through HsmsProtocol.send_message / _process_send_queue, which cuts the block into packets of send_packet_size
            from secsgem.hsms.header import HsmsHeader, HsmsSType
            from secsgem.hsms.message import HsmsMessage
            message = HsmsMessage(HsmsHeader(77, 0, 1, 1, False, 0, HsmsSType.DATA_MESSAGE), payload)
            payload = message.blocks[0].encode()
            size = len(payload)
            obs["size"] = size
        received = bytearray()
        if active:
            # the active endpoint opens with its Select.req (14 bytes, SType 1): read it before the payload is sent
            sock.settimeout(5)
            head = bytearray()
            while len(head) < 14:
                part = sock.recv(14 - len(head))
                if not part:
                    break
                head.extend(part)
            obs["select_req_first"] = len(head) == 14 and head[:4] == b"\x00\x00\x00\x0a" and head[9] == 1
        expected_len = len(payload)
        done = threading.Event()

        hold = threading.Event()      # set while the peer does not read (the endpoint is being closed)
        resume = threading.Event()

        def reader():
            if pacing == "delayed":
                time.sleep(0.4)
            sock.settimeout(5)
            try:
                while len(received) < expected_len:
                    if close_after_send and active and sent_evt.is_set() and not resume.is_set():
                        # the peer pauses as soon as the send has returned: what it has not read is in the sender's kernel
                        hold.set()
                        resume.wait(5)
                    if close_after_send and not active and not resume.is_set() and len(received) >= expected_len - HOLD_BACK:
                        # the peer stops reading shortly before the end: the send still completes (the tail fits the socket buffers),
                        # part of it is still in the sender's kernel buffer when the endpoint closes
                        hold.set()
                        resume.wait(5)
                    chunk = sock.recv(512 if pacing == "small_reads" else 65536)
                    if not chunk:
                        break
                    received.extend(chunk)
                    if pacing == "small_reads" and len(received) % (64 * 512) == 0:
                        time.sleep(0.001)
            except OSError:
                pass
            done.set()

        th = threading.Thread(target=reader, daemon=True)
        th.start()
        t0 = time.monotonic()
        ok = common.with_deadline((lambda: proto.send_message(message)) if via_protocol else (lambda: conn.send_data(payload)), 60.0)
        obs["reported"] = bool(ok)
        obs["send_seconds"] = round(time.monotonic() - t0, 2)
        sent_evt.set()
        if close_after_send:
            # the endpoint closes while the peer has not drained what the kernel still holds (the peer pauses), then the peer reads on until EOF
            hold.wait(5)
            obs["unread_when_closed"] = expected_len - len(received)
            common.with_deadline(proto.disable, 15.0)
            time.sleep(0.3)
            resume.set()
        done.wait(20)
        obs["received"] = len(received)
        obs["identical"] = bytes(received) == payload
        if close_after_send and len(received) > expected_len:
            # disable() announces the end with a Separate.req (a 14-byte control frame, SType 9) behind the data
            tail = bytes(received[expected_len:])
            obs["trailing_control_frame"] = tail.hex()
            obs["identical"] = bytes(received[:expected_len]) == payload and len(tail) == 14 and tail[:4] == b"\x00\x00\x00\x0a" and tail[9] == 9
        if not obs["identical"] and len(received):
            n = min(len(received), len(payload))
            first = next((i for i in range(n) if received[i] != payload[i]), n)
            obs["first_difference_at"] = first
        sock.close()
    finally:
        try:
            common.with_deadline(proto.disable, 15.0)
        except common.Wedged:
            obs["disable_hung"] = True
    return obs


HEADER = "From SG Require Import Base.Prelude Model.TcpSend Gen.Send Run.C10Run.\nOpen Scope nat_scope.\n"


def evaluate(lits, prefix, shard=150):
    shards, maps = [], []
    idx = list(range(len(lits)))
    for s in range(0, len(idx), shard):
        part = idx[s: s + shard]
        maps.append(part)
        shards.append("Definition cs : list c10case := [\n" + ";\n".join(lits[i] for i in part) + "\n].\nEval vm_compute in run_c10 cs.\n")
    outs = common.coq_eval_shards(prefix, HEADER, shards)
    bad, skipped, checked, errors = [], 0, 0, []
    for part, (ok, text) in zip(maps, outs):
        parsed = common.parse_triples(text) if ok else None
        if parsed is None:
            errors.append(text[-800:])
            continue
        b, sk, ch = parsed
        skipped += sk
        checked += ch
        bad.extend((part[i], m, s) for i, m, s in b)
    return bad, {"skipped_unmodelled": skipped, "spec_checked": checked, "eval_errors": errors, "observed": len(lits)}


SPEC_CODES = {31: "success was reported although the socket had not taken the whole message", 32: "what the socket took is not a prefix of the message"}
MODEL_CODES = {12: "model and implementation hand different bytes to the socket", 13: "model and implementation report a different result"}


def run(tier, replay=None):
    import json
    import logging
    from collections import Counter
    logging.disable(logging.CRITICAL)
    report = common.Report("C10", tier)
    if replay:
        print(json.dumps(json.load(open(replay)), indent=1)[:3000])
        return 0
    proof = common.prove(report, "C10", ["send"], extra_targets=["Run/C10Run.vo"])
    ok, log = common.coq_make(["Run/C10Run.vo"])
    if not ok:
        report.violation({"kind": "broken-obligation", "obligation": "Run/C10Run.vo does not build", "detail": log[-1500:], "also": proof.get("broken")}, False, tag="modelbuild")
        return report.finish()
    rnd = common.rng("c10")
    cases = gen_scripted(rnd, tier)
    wedged, kept, lits = [], [], []
    for c in cases:
        lit = common.guarded(lambda c=c: scripted_case(c[0], c[1]), f"scripted socket {c[0]} data {c[1].hex()}", wedged, 20.0)
        if lit is not None:
            kept.append(c)
            lits.append(lit)
    cases = kept
    common.report_wedged(report, wedged, proof)
    bad, stats = evaluate(lits, "c10")
    spec_bad = [(i, m, sc) for i, m, sc in bad if sc >= 30]
    model_bad = [(i, m, sc) for i, m, sc in bad if m >= 10 and sc < 30]
    reported = set()
    for i, m, sc in sorted(spec_bad, key=lambda t: len(cases[t[0]][1])):
        if sc in reported:
            continue
        reported.add(sc)
        report.violation({"kind": "counterexample", "what": SPEC_CODES.get(sc, str(sc)), "socket_answers": cases[i][0], "data_hex": cases[i][1].hex(), "observed_case": lits[i][:2000],
                          "model_code": m, "broken_obligation": proof.get("broken")}, True, tag=f"spec{sc}")
    # real sockets: sizes below and above the send buffer, three receiver pacings
    sizes = [1, 1000, 6145, 100000, 1024 * 1024 + 3] if tier == "quick" else [1, 2, 1000, 4096, 6144, 6145, 65536, 100000, 1024 * 1024, 1024 * 1024 + 3, 4 * 1024 * 1024 + 1]
    rounds = []
    base = 24000 + (os.getpid() * 11) % 15000
    twedged = []
    k = 0
    for size in sizes:
        for pacing in ("immediate", "delayed", "small_reads"):
            if tier == "quick" and (size + len(pacing)) % 2 and size > 1000:
                continue
            k += 1
            obs = common.guarded(lambda size=size, pacing=pacing, k=k: loopback_round(common.own_port(k), size, pacing, False), f"loopback: {size} bytes, receiver {pacing}", twedged, 120.0)
            if obs is None:
                continue
            rounds.append(obs)
            if obs["reported"] and not obs["identical"]:
                report.violation({"kind": "counterexample", "what": "send_data() reported success but the peer did not receive the bytes complete, in order and unduplicated", **obs}, True, tag="tcp")
                break
        if any(v for v in report.violations if "tcp" in v):
            break
    # success was reported, the endpoint is disabled at once, the slow peer reads on until EOF: nothing of the accepted bytes may be missing
    for size in ([60000] if tier == "quick" else [3000, 20000, 60000, 300000]):
        k += 1
        obs = common.guarded(lambda size=size, k=k: loopback_round(common.own_port(k), size, "small_reads", False, True), f"loopback: {size} bytes, endpoint disabled right after the send", twedged, 120.0)
        if obs is None:
            continue
        rounds.append(obs)
        if obs["reported"] and not obs["identical"]:
            report.violation({"kind": "counterexample", "what": "send_data() reported success, the endpoint was closed, and the peer reading until EOF did not receive the bytes complete", **obs}, True, tag="tcp")
            break
    swap = common.guarded(lambda: reconnect_during_send_round(common.own_port(5)), "the connection is replaced while a big message is on its way", twedged, 120.0)
    report.coverage["connection_replaced_during_a_send"] = swap
    if swap is not None and not (swap["send_returned"] and swap["second_connection_got"] == 0 and swap["first_is_a_prefix"] and (swap["reported"] is not True or swap["first_got_all"])):
        report.violation({"kind": "counterexample", "what": "the connection ended and the next one was established while a message was on its way: bytes of the message reached the new connection, "
                          "or success was reported although the connection it was started on did not get all of it", **swap}, True, tag="swap")
    # the same with an ACTIVE endpoint (its own socket set-up): a big message to a peer with a small receive window that pauses while the endpoint closes
    # (not beyond the kernel's buffers: a peer that does not read blocks the Separate.req of the closing endpoint - and with it disable() - until it reads again)
    for size in ([1 << 20] if tier == "quick" else [60000, 300000, 1 << 20]):
        k += 1
        obs = common.guarded(lambda size=size, k=k: loopback_round(common.own_port(k % 10), size, "small_reads", False, True, True), f"loopback: active endpoint, {size} bytes, closed right after the send", twedged, 120.0)
        if obs is None:
            continue
        rounds.append(obs)
        if obs["reported"] and not obs["identical"]:
            report.violation({"kind": "counterexample", "what": "send_data() of an ACTIVE endpoint reported success, the endpoint was closed, and the peer reading until EOF did not receive the bytes complete", **obs}, True, tag="tcpactive")
            break
    closed_obs = common.guarded(send_on_closed_socket_case, "send_message right after the socket was closed", twedged, 60.0)
    if closed_obs is not None and not (closed_obs.get("send_returned") and closed_obs.get("reported") is False):
        report.violation({"kind": "counterexample", "what": "a send on a connection whose socket had just been closed did not come back with failure", **closed_obs}, True, tag="closedsocket")
    conc = []
    for size in ([600000] if tier == "quick" else [200000, 600000, 3 * 1024 * 1024]):
        obs = common.guarded(lambda size=size: concurrent_senders_round(common.own_port(4), size), f"loopback: {size} bytes on their way while other threads send", twedged, 120.0)
        if obs is None:
            continue
        conc.append(obs)
        if not (obs.get("senders_returned") and obs.get("reported") == {"big": True, "small": True} and obs.get("stream_is_exactly_the_frames_sent")):
            report.violation({"kind": "counterexample", "what": "sends of several threads at the same time: a send was reported successful but its bytes did not arrive as one complete, contiguous frame", **obs}, True, tag="concurrent")
            break
    cov_conc = conc
    # a later packet of a frame is not written: the call reports failure
    later = []
    for packet, size, fail_at in ([(8, 20, 2), (8, 20, 5), (16, 100, 3), (8, 20, 6)] if tier == "quick" else [(p, sz, f) for p in (4, 8, 16) for sz in (0, 20, 100) for f in (1, 2, 3, 5, 9, 40)]):
        obs = common.guarded(lambda a=(packet, size, fail_at): later_packet_fails_case(*a), f"send_message: packet size {packet}, body {size}, send_data fails at call {fail_at}", twedged, 60.0)
        if obs is None:
            continue
        later.append(obs)
        if obs["reported"] != obs["written_completely"]:
            report.violation({"kind": "counterexample", "what": "send_message() reported success although a packet of the frame was not written (or failure although all were)", **obs}, True, tag="laterpacket")
            break
    # whole messages through the protocol's send queue, around the packet size
    for size in ([1024 * 1024 + 1] if tier == "quick" else [1024 * 1024 - 14, 1024 * 1024 - 13, 1024 * 1024 + 1, 2 * 1024 * 1024 + 5, 3 * 1024 * 1024 - 14]):
        k += 1
        obs = common.guarded(lambda size=size, k=k: loopback_round(common.own_port(k), size, "immediate", True), f"loopback: message with a body of {size} bytes through send_message", twedged, 120.0)
        if obs is None:
            continue
        rounds.append(obs)
        if obs["reported"] and not obs["identical"]:
            report.violation({"kind": "counterexample", "what": "send_message() reported success but the peer did not receive the frame complete, in order and unduplicated", **obs}, True, tag="tcp")
            break
    common.report_wedged(report, twedged, proof)
    if not report.violations:
        if model_bad:
            i, m, sc = model_bad[0]
            report.violation({"kind": "broken-correspondence", "obligation": "Model/TcpSend.v (with Gen/Send.v) no longer behaves like TcpConnection.send_data: " + MODEL_CODES.get(m, str(m)),
                              "socket_answers": cases[i][0], "data_hex": cases[i][1].hex(), "observed_case": lits[i][:2000], "count": len(model_bad)}, False, tag="model")
        elif stats["eval_errors"]:
            report.violation({"kind": "broken-correspondence", "obligation": "case evaluation failed", "detail": stats["eval_errors"][0]}, False, tag="eval")
        elif not proof["ok"]:
            report.violation({"kind": "broken-obligation", "obligation": proof["broken"], "searched": f"{len(lits)} scripted sockets and {len(rounds)} loopback transfers: no byte lost"}, False, tag="proof")
    cov = report.coverage
    cov["evaluations"] = len(lits) + len(rounds)
    cov["distinct_nontrivial"] = len(set(lits))
    cov["rule"] = ("TcpConnection.send_data run against a scripted socket (each send() call takes n bytes / would block / fails, as a random script says; select() sees it writable): the bytes "
                   "handed over and the reported result are compared with the model and the statement; and real transfers from a TcpServerConnection to a loopback socket with 4 KiB socket "
                   "buffers: 1 byte to 4 MiB, receiver reading at once, after a delay, or in 512-byte reads; received bytes compared with what was sent")
    cov["correspondence"] = {k2: v for k2, v in stats.items() if k2 != "eval_errors"}
    cov["later_packet_fails"] = later
    cov["send_on_closed_socket"] = closed_obs
    cov["concurrent_senders"] = cov_conc
    cov["loopback"] = [{k2: o.get(k2) for k2 in ("size", "pacing", "closed_right_after_send", "reported", "identical", "received", "send_seconds")} for o in rounds]
    cov["distribution"] = {"data_sizes": dict(Counter(len(c[1]) for c in cases)), "script_lengths": dict(Counter(len(c[0]) for c in cases))}
    cov["samples"] = [f"{c[0]} / {len(c[1])} bytes" for c in cases[:: max(1, len(cases) // 5)][:5]]
    code = report.finish()
    import sys
    sys.stdout.flush()
    os._exit(code)
