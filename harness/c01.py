"""C01 — SECS-II values round-trip and are encoded exactly as E5 prescribes.

Also hosts the generator shared with C02/C03/C14."""
from __future__ import annotations

import math
import struct

import coqlit as L
import common
import valrig

NUM_RANGE = {
    "U1": (0, 2**8 - 1),
    "U2": (0, 2**16 - 1),
    "U4": (0, 2**32 - 1),
    "U8": (0, 2**64 - 1),
    "I1": (-(2**7), 2**7 - 1),
    "I2": (-(2**15), 2**15 - 1),
    "I4": (-(2**31), 2**31 - 1),
    "I8": (-(2**63), 2**63 - 1),
}
FLT_MAX = 3.4028234663852886e38
DBL_MAX = 1.7976931348623157e308
F4_SPECIAL = [0.0, -0.0, 1.0, -1.0, 0.5, 1.5, 3.40282e38, -3.40282e38, FLT_MAX, -FLT_MAX, 1e-45, 1.401298464324817e-45,
              1.1754943508222875e-38, 1.1754942106924411e-38, 2.0**-149, 2.0**-126, 65504.0, 16777216.0, 16777217.0,
              0.1, 3.4028235677973366e38, 3.4028235e38, 3.402823e38, 7e-46, 2.1e-45, 1e39, -1e39, 5e-324]
F8_SPECIAL = [0.0, -0.0, 1.0, -1.0, 0.1, 1.79769e308, -1.79769e308, DBL_MAX, -DBL_MAX, 5e-324, 2.2250738585072014e-308,
              2.225073858507201e-308, 1e308, 1.7976931e308, 123456.789, float("inf"), float("-inf")]


def int_boundaries(kind, rnd):
    lo, hi = NUM_RANGE[kind]
    vals = [lo, lo + 1, hi - 1, hi, 0, 1, lo - 1, hi + 1, -1, 127, 128, 255, 256, 65535, 65536, 2**31, 2**32, 2**63, 2**64]
    return vals


def rand_double(rnd):
    while True:
        d = struct.unpack(">d", struct.pack(">Q", rnd.getrandbits(64)))[0]
        if not math.isnan(d):
            return d


def rand_single(rnd):
    while True:
        f = struct.unpack(">f", struct.pack(">L", rnd.getrandbits(32)))[0]
        if not math.isnan(f) and not math.isinf(f):
            return f


def scalar_elem(kind, rnd, valid=True):
    """One element value for a scalar class."""
    if kind in NUM_RANGE:
        lo, hi = NUM_RANGE[kind]
        if valid:
            c = rnd.random()
            if c < 0.4:
                return rnd.choice([v for v in int_boundaries(kind, rnd) if lo <= v <= hi])
            if c < 0.5:
                return rnd.choice([True, False])
            return rnd.randint(lo, hi)
        return rnd.choice([v for v in int_boundaries(kind, rnd) if not lo <= v <= hi])
    if kind == "F4":
        c = rnd.random()
        if c < 0.4:
            return rnd.choice(F4_SPECIAL)
        if c < 0.7:
            return rand_single(rnd)
        if c < 0.8:
            return rand_single(rnd) * (1 + rnd.random() * 1e-7)
        if c < 0.9:
            return rnd.randint(-(2**24), 2**24)
        return rnd.uniform(-1, 1) * 2.0 ** rnd.randint(-155, 130)
    if kind == "F8":
        c = rnd.random()
        if c < 0.4:
            return rnd.choice(F8_SPECIAL)
        if c < 0.9:
            return rand_double(rnd)
        return rnd.randint(-(2**53) + 1, 2**53 - 1)
    if kind == "Boolean":
        return rnd.choice([True, False, 0, 1]) if valid else rnd.choice([2, -1, 255])
    if kind == "Binary":
        return rnd.randint(0, 255) if valid else rnd.choice([256, -1, 1000])
    raise ValueError(kind)


LENS_Q = [0, 1, 2, 3, 5, 17]
LENS_BOUNDARY = [254, 255, 256, 257]
LENS_BIG = [65534, 65535, 65536, 65537]


def text_value(kind, n, rnd):
    if kind == "String":
        mode = rnd.random()
        if mode < 0.3:
            return "".join(chr(rnd.randint(0, 255)) for _ in range(n))
        if mode < 0.6:
            return "".join(chr(rnd.randint(32, 126)) for _ in range(n))
        return (chr(rnd.randint(0, 255)) * n) if n > 24 else "".join(chr(rnd.choice([0, 10, 34, 65, 127, 128, 255, 92, 126])) for _ in range(n))
    # JIS8: code points in the codec's range
    pool = list(range(0, 0x5C)) + [0xA5, 0x203E] + list(range(0x5D, 0x7E)) + list(range(0x7F, 0xA1)) + list(range(0xFF61, 0xFFA0)) + list(range(0xE0, 0x100))
    if n > 24:
        return chr(rnd.choice(pool)) * n
    return "".join(chr(rnd.choice(pool)) for _ in range(n))


def scalar_value(kind, count, rnd, n=None, form=None):
    """A plain python value for scalar type (kind, count): returns (value, expected_valid_hint)."""
    if n is None:
        n = rnd.choice(LENS_Q)
    if kind in ("String", "JIS8"):
        form = form or rnd.choice(["str", "str", "bytes", "list", "bytearray"])
        text = text_value(kind, n, rnd)
        if form == "str":
            if rnd.random() < 0.08:
                text += rnd.choice(["Ā", "€", "｠"])
            return text
        try:
            raw = text.encode("latin-1" if kind == "String" else "jis_8")
        except UnicodeEncodeError:
            return text
        if form == "bytes":
            return raw
        if form == "bytearray":
            return bytearray(raw)
        return list(raw)
    if kind == "Binary":
        form = form or rnd.choice(["bytes", "bytes", "list", "bytearray", "int", "str", "none"])
        if form == "none":
            return None
        if form == "int":
            return scalar_elem("Binary", rnd, rnd.random() < 0.8)
        if form == "str":
            return "".join(chr(rnd.randint(0, 127 if rnd.random() < 0.9 else 255)) for _ in range(n))
        raw = bytes([rnd.randint(0, 255)]) * n if n > 24 else bytes(rnd.randint(0, 255) for _ in range(n))
        if form == "bytes":
            return raw
        if form == "bytearray":
            return bytearray(raw)
        lst = list(raw)
        if lst and rnd.random() < 0.1:
            lst[rnd.randrange(len(lst))] = rnd.choice([256, -1, True])
        return lst
    # numbers and booleans
    form = form or rnd.choice(["list", "list", "scalar", "scalar"])
    bad = rnd.random() < 0.12
    if form == "scalar":
        v = scalar_elem(kind, rnd, not bad)
        if kind in NUM_RANGE and rnd.random() < 0.05:
            return 1.5
        return v
    if n > 24:
        a = scalar_elem(kind, rnd, True)
        b = scalar_elem(kind, rnd, True)
        lst = [a, b] * (n // 2) + [a] * (n % 2)
    else:
        lst = [scalar_elem(kind, rnd, True) for _ in range(n)]
    if bad and lst:
        lst[rnd.randrange(len(lst))] = scalar_elem(kind, rnd, False) if kind in NUM_RANGE or kind in ("Boolean",) else float("inf")
    elif lst and kind in NUM_RANGE and rnd.random() < 0.06:
        # a fraction (or a whole-valued float) among the elements of an integer type: refused like the single value
        lst[rnd.randrange(len(lst))] = rnd.choice([1.5, -0.5, 2.0, 0.0])
    return lst


DYN_SETS = [
    ["JIS8", "U1"],
    ["String", "JIS8", "Binary"],
    ["U1", "U2", "U4", "U8", "I1", "I2", "I4", "I8", "String"],
    ["U4", "String"],
    ["String", "Binary"],
    ["U1", "I1"],
    ["I8", "U8", "F8"],
    ["F4", "F8", "U2"],
    ["Boolean", "U1"],
    ["Binary", "U1"],
    [],
]


def rand_type(rnd, depth, name="T"):
    c = rnd.random()
    if depth <= 0 or c < 0.45:
        kind = rnd.choice(valrig.SCALARS)
        count = rnd.choice([-1, -1, -1, 1, 2, 3, 5])
        return ("scal", kind, count)
    if c < 0.6:
        return ("dyn", rnd.choice(DYN_SETS), rnd.choice([-1, -1, 1, 3]))
    if c < 0.65:
        return ("any",)
    if c < 0.8:
        return ("arr", rand_type(rnd, depth - 1), -1)
    # a nested record needs two or more members: a list format with one member is an open list (array)
    nfields = rnd.choice([2, 2, 3, 4])
    fields = []
    for i in range(nfields):
        ft = rand_type(rnd, depth - 1)
        fname = f"F{i}"
        if ft[0] == "arr" and ft[1][0] == "arr":
            fname = "DATA"
        if ft[0] == "any":
            fname = "ANYVALUE"
        if ft[0] == "arr" and ft[1][0] == "any":
            fname = "ANYVALUE"
        if any(fname == n for n, _ in fields):
            ft = ("scal", "U1", -1)
            fname = f"F{i}"
        fields.append((fname, ft))
    return ("rec", fields)


def rand_value(t, rnd, n=None):
    tag = t[0]
    if tag == "scal":
        return scalar_value(t[1], t[2], rnd, n=n)
    if tag == "dyn" or tag == "any":
        allowed = t[1] if tag == "dyn" and t[1] else ["Boolean", "U1", "U2", "U4", "U8", "I1", "I2", "I4", "I8", "F4", "F8", "String", "Binary"]
        kind = rnd.choice(allowed)
        if kind == "Array":
            # lists cannot be given to a Dynamic as plain values (Array(count=...) lacks its format); seen as an error now and then
            if rnd.random() < 0.15:
                return [1, 2]
            kind = rnd.choice([a for a in allowed if a != "Array"] or ["U1"])
        v = scalar_value(kind, t[2] if tag == "dyn" else -1, rnd, n=n)
        cnt = t[2] if tag == "dyn" else -1
        del cnt
        if rnd.random() < 0.35 and v is not None:
            # typed wrapper chooses the alternative explicitly (a wrapper longer than the Dynamic's count is refused since D39;
            # before, it was the finding C01-typed-count, which is still replayed)
            return L.Typed(kind, v)
        if tag == "any" and rnd.random() < 0.1:
            return [1, 2]
        return v
    if tag == "arr":
        k = n if n is not None else rnd.choice([0, 1, 2, 3])
        if t[2] >= 0 and rnd.random() < 0.8:
            k = t[2]
        if k > 24:
            a = rand_value(t[1], rnd)
            return [a] * k
        return [rand_value(t[1], rnd) for _ in range(k)]
    if tag == "rec":
        c = rnd.random()
        if c < 0.55:
            return [rand_value(ft, rnd) for _, ft in t[1]]
        if c < 0.9:
            items = [(fname, rand_value(ft, rnd)) for fname, ft in t[1] if rnd.random() < 0.8]
            rnd.shuffle(items)
            return dict(items)
        if c < 0.95:
            return [rand_value(ft, rnd) for _, ft in t[1]][: max(0, len(t[1]) - 1)]
        return [rand_value(ft, rnd) for _, ft in t[1]] + [1]
    raise ValueError(tag)


def gen_cases(rnd, tier):
    cases = []
    # 1. every scalar type x boundary lengths x forms
    # a few mid-size counts as well: bulk code paths tend to switch on element counts like 1024 or 4096
    base_lens = LENS_Q + LENS_BOUNDARY + [1023, 1024, 4097]
    width = {"U2": 2, "I2": 2, "U4": 4, "I4": 4, "F4": 4, "U8": 8, "I8": 8, "F8": 8}
    for kind in valrig.SCALARS:
        # thorough: element counts whose BYTE length crosses the two-to-three length-byte boundary (65535/65536)
        w = width.get(kind, 1)
        big = ([65536 // w - 1, 65536 // w, 65536 // w + 1] if w > 1 else LENS_BIG) if tier == "thorough" else []
        for n in base_lens + big:
            reps = 3 if n <= 17 else 1
            for _ in range(reps):
                t = ("scal", kind, -1)
                cases.append((t, scalar_value(kind, -1, rnd, n=n, form="list" if kind not in ("String", "JIS8", "Binary") else None), b""))
        # all numeric boundaries as scalars and in lists
        if kind in NUM_RANGE:
            for v in int_boundaries(kind, rnd):
                cases.append((("scal", kind, -1), v, b""))
            cases.append((("scal", kind, -1), [v for v in int_boundaries(kind, rnd) if NUM_RANGE[kind][0] <= v <= NUM_RANGE[kind][1]], b"\x00"))
        if kind == "F4":
            for v in F4_SPECIAL:
                cases.append((("scal", kind, -1), v, b""))
        if kind == "F8":
            for v in F8_SPECIAL:
                cases.append((("scal", kind, -1), v, b""))
        # count-limited
        for count in (1, 2, 3):  # count 0 is outside the domain (DESIGN 11)
            for n in (count - 1, count, count + 1):
                if n >= 0:
                    cases.append((("scal", kind, count), scalar_value(kind, count, rnd, n=n), b""))
    # the two-to-three length-byte boundary on the one-byte-per-element classes (the wider ones in thorough)
    if tier == "quick":
        for kind in ("Binary", "String", "U1", "Boolean"):
            for n in (65535, 65536):
                cases.append((("scal", kind, -1), scalar_value(kind, -1, rnd, n=n, form="list" if kind in ("U1", "Boolean") else ("bytes" if kind == "Binary" else "str")), b""))
    # all 256 byte values in text and binary
    allb = bytes(range(256))
    cases.append((("scal", "Binary", -1), allb, b""))
    cases.append((("scal", "String", -1), allb.decode("latin-1"), b""))
    cases.append((("scal", "String", -1), allb, b""))
    cases.append((("scal", "JIS8", -1), allb, b""))
    cases.append((("scal", "JIS8", -1), allb.decode("jis_8"), b""))
    # 2. arrays at length-byte boundaries
    for n in [0, 1, 255, 256] + ([1000, 4000] if tier == "thorough" else []):  # see c14.py about 65535-item lists
        cases.append((("arr", ("scal", "U1", -1), -1), [7] * n, b""))
        cases.append((("arr", ("scal", "String", -1), -1), ["ab"] * n, b"\x01"))
    for count in (0, 2):
        for n in (0, 1, 2, 3):
            cases.append((("arr", ("scal", "I2", -1), count), [-2] * n, b""))
    # 3. random nested types
    nrand = 1500 if tier == "quick" else 12000
    for _ in range(nrand):
        t = rand_type(rnd, rnd.choice([0, 1, 2, 3, 4, 6]))
        tail = bytes(rnd.randint(0, 255) for _ in range(rnd.choice([0, 0, 1, 3])))
        cases.append((t, rand_value(t, rnd), tail))
    # 4. arrays of records / binaries given a second value (evaluate() sets another value first): records that name only some of their fields,
    # at indexes that held a full record before
    for _ in range(30 if tier == "quick" else 300):
        nf = rnd.choice([2, 2, 3, 4])
        ft = ("rec", [(f"F{i}", ("scal", rnd.choice(["String", "U2", "Binary", "I4", "Boolean", "String"]), -1)) for i in range(nf)])
        t = ("arr", ft if rnd.random() < 0.85 else ("scal", "Binary", -1), -1)
        p = []
        for _item in range(rnd.choice([1, 2, 3])):
            if t[1][0] == "rec":
                full = rand_value(ft, rnd)
                while not isinstance(full, list) or len(full) != nf:
                    full = rand_value(ft, rnd)
                keep = [i for i in range(nf) if rnd.random() < 0.5]
                p.append({f"F{i}": full[i] for i in keep})
            else:
                p.append(rand_value(t[1], rnd))
        cases.append((t, p, b""))
    return cases


def nontrivial(t, p, o):
    return o["set_ok"] and o["enc"] is not None and len(o["enc"]) > 2


HEADER = "From SG Require Import Base.Prelude Base.Kinds Model.Secs2 Run.C01Run.\nOpen Scope N_scope.\n"


def evaluate(cases, prefix, shard=400, jobs=8):
    """Observe the implementation on every case and evaluate model_agree/spec_holds in Coq.

    Returns (results, stats): results = list of (case_index, model_code, spec_code) that are not clean."""
    obs = []
    import random as _random
    for k, (t, p, tail) in enumerate(cases):
        if valrig.has_nan(p):
            obs.append(None)
            continue
        try:
            # every second array on a variable that already holds another value of its type: Array.set() replaces its items, what a record
            # item does not name is empty - not what the item at that index held before.  (A record itself is different: set() with a dict
            # updates the named fields and keeps the others; that is the library's documented way to change single fields.)
            before = None
            if t[0] == "arr" and (k % 2 == 0 or any(isinstance(x, dict) for x in (p if isinstance(p, list) else []))):
                try:
                    before = rand_value(t, _random.Random(k * 7919 + 13))
                except Exception:  # noqa: BLE001
                    before = None
                if before is not None and valrig.has_nan(before):
                    before = None
            o = valrig.observe(t, p, tail, before)
            lit = valrig.obs_literal(t, p, tail, o)
        except valrig.Unobservable:
            obs.append(None)
            continue
        obs.append((o, lit))
    idx = [i for i, x in enumerate(obs) if x is not None]
    shards = []
    maps = []
    for s in range(0, len(idx), shard):
        part = idx[s : s + shard]
        maps.append(part)
        defs = "Definition cs : list obs := [\n" + ";\n".join(obs[i][1] for i in part) + "\n].\nEval vm_compute in run_cases cs.\n"
        shards.append(defs)
    outs = common.coq_eval_shards(prefix, HEADER, shards, jobs=jobs)
    bad = []
    skipped = checked = 0
    errors = []
    for part, (ok, text) in zip(maps, outs):
        parsed = common.parse_triples(text) if ok else None
        if parsed is None:
            errors.append(text[-800:])
            continue
        b, sk, ch = parsed
        skipped += sk
        checked += ch
        for i, m, s in b:
            bad.append((part[i], m, s))
    return obs, bad, {"skipped_unmodelled": skipped, "spec_checked": checked, "eval_errors": errors, "observed": len(idx)}


# ------------------------------------------------------------------ the check
SPEC_CODES = {
    30: "accepted value could not be encoded",
    31: "encoded bytes differ from the SEMI E5 encoding of the value",
    32: "the E5 encoding of an accepted value could not be decoded by a fresh variable of the same type",
    33: "decode did not consume exactly the encoded bytes",
    34: "decoded value differs from the value that was encoded",
    36: "an accepted number was not kept as it is (e.g. a fraction cut off by an integer type)",
}
MODEL_CODES = {
    10: "implementation accepted a value the model rejects",
    11: "implementation rejected a value the model accepts",
    12: "internal value after set() differs from the model",
    13: "get() differs from the model",
    14: "implementation encoded a value the model cannot encode",
    15: "implementation failed to encode a value the model encodes",
    16: "encoded bytes differ from the model",
    17: "implementation decoded bytes the model rejects",
    18: "implementation failed to decode bytes the model decodes",
    19: "model ran out of fuel",
    20: "decoded value / end position differ from the model",
}


def case_repr(case):
    t, p, tail = case
    return repr((t, p, bytes(tail)))


def case_eval(text):
    return eval(text, {"__builtins__": {}}, {"Typed": L.Typed, "bytearray": bytearray, "inf": float("inf"), "nan": float("nan")})  # noqa: S307


def _typed_repr(self):
    return f"Typed({self.kind!r}, {self.value!r})"


L.Typed.__repr__ = _typed_repr


def group_key(case, code):
    t = case[0]
    top = t[0] if t[0] != "scal" else t[1]
    return (code, top)


def decide(report, prop, cases, obs, bad, stats, proof, spec_codes, model_codes, extra_replay=None):
    """Common decision logic of the value-codec checks (C01, C02, C03, C14)."""
    spec_bad = [(i, m, s) for i, m, s in bad if s >= 30]
    model_bad = [(i, m, s) for i, m, s in bad if m >= 10]
    seen = set()
    for i, m, s in spec_bad:
        key = group_key(cases[i], s)
        if key in seen or len(seen) >= 5:
            continue
        seen.add(key)
        o = obs[i][0]
        report.violation(
            {
                "kind": "counterexample",
                "what": spec_codes.get(s, str(s)),
                "case": case_repr(cases[i]),
                "spec_code": s,
                "model_code": m,
                "observed": {k: (v.hex() if isinstance(v, bytes) else repr(v)) for k, v in o.items() if k != "val"},
                "observed_internal": o["val"][:2000],
                "broken_obligation": proof.get("broken"),
            },
            True,
            tag=f"spec{s}",
        )
    if spec_bad:
        return
    if stats["eval_errors"]:
        report.violation(
            {"kind": "broken-obligation", "obligation": f"correspondence {prop}: case evaluation failed in Coq", "detail": stats["eval_errors"][0][-1500:],
             "also": proof.get("broken")},
            False,
            tag="evalerror",
        )
        return
    if model_bad:
        i, m, s = model_bad[0]
        o = obs[i][0]
        report.violation(
            {
                "kind": "broken-obligation",
                "obligation": f"correspondence {prop}: model and implementation disagree ({model_codes.get(m, m)})",
                "case": case_repr(cases[i]),
                "model_code": m,
                "disagreements": len(model_bad),
                "observed": {k: (v.hex() if isinstance(v, bytes) else repr(v)) for k, v in o.items() if k != "val"},
                "observed_internal": o["val"][:2000],
                "also": proof.get("broken"),
                "search": f"specification evaluated on all {stats['observed']} cases of this run: no failing input",
            },
            False,
            tag=f"model{m}",
        )
        return
    if not proof["ok"]:
        report.violation(
            {"kind": "broken-obligation", "obligation": proof["broken"],
             "search": f"model and specification evaluated on {stats['observed']} cases: implementation agrees with both"},
            False,
            tag="proof",
        )


def fill_coverage(report, cases, obs, stats, rule):
    import hashlib

    distinct = set()
    for case, ob in zip(cases, obs):
        if ob is None:
            continue
        if nontrivial(case[0], case[1], ob[0]):
            distinct.add(hashlib.sha256(ob[1].encode()).hexdigest())
    cov = report.coverage
    cov["evaluations"] = stats["observed"]
    cov["distinct_nontrivial"] = len(distinct)
    cov["rule"] = rule
    cov["correspondence"] = {k: v for k, v in stats.items() if k != "eval_errors"}
    kinds = {}
    sizes = {"0": 0, "1-16": 0, "17-255": 0, "256-65535": 0, ">=65536": 0}
    errs = {"accepted": 0, "rejected": 0, "encode_failed": 0, "decode_failed": 0}
    for case, ob in zip(cases, obs):
        if ob is None:
            continue
        t = case[0]
        kinds[t[1] if t[0] == "scal" else t[0]] = kinds.get(t[1] if t[0] == "scal" else t[0], 0) + 1
        o = ob[0]
        if not o["set_ok"]:
            errs["rejected"] += 1
            continue
        errs["accepted"] += 1
        if o["enc"] is None:
            errs["encode_failed"] += 1
            continue
        if o["dec"] is None:
            errs["decode_failed"] += 1
        n = len(o["enc"])
        sizes["0" if n <= 2 else "1-16" if n <= 18 else "17-255" if n <= 257 else "256-65535" if n < 65540 else ">=65536"] += 1
    cov["distribution"] = {"top_level_kind": kinds, "encoded_size": sizes, "outcome": errs}
    cov["samples"] = [case_repr(c)[:300] for c in cases[:: max(1, len(cases) // 8)][:8]]


KNOWN = [
    {
        "id": "C01-typed-count",
        "case": "(('dyn', ['U4', 'String'], 1), Typed('String', 'abc'), b'')",
        "expect_spec_code": 32,
        "text": "Dynamic(count=1).set(String('abc')) is accepted (typed wrappers bypass the count check) but its encoding cannot be decoded by a fresh Dynamic(count=1)",
    },
]


def replay_known(report, prop, known, evaluate_fn):
    listed = {e["id"]: e for e in common.known_findings(prop)}
    cases = []
    metas = []
    for k in known:
        entry = listed.get(k["id"])
        if entry is None:
            continue
        cases.append(case_eval(k["case"]))
        metas.append((k, entry))
    if not cases:
        return
    obs, bad, stats = evaluate_fn(cases, f"{prop.lower()}_known")
    badmap = {i: (m, s) for i, m, s in bad}
    out = []
    for idx, (k, entry) in enumerate(metas):
        m, s = badmap.get(idx, (0, 0))
        still = s >= 30
        out.append({"id": k["id"], "status": entry.get("status"), "still_fails": still, "spec_code": s})
        if entry.get("status") == "open":
            if still:
                report.known(f"{k['id']}: {k['text']}")
        elif still:  # a fixed finding came back
            report.violation({"kind": "counterexample", "what": f"fixed finding {k['id']} fails again: {k['text']}", "case": k["case"], "spec_code": s}, True, tag="regress")
    report.coverage["known_findings_replayed"] = out


def run(tier, replay=None):
    report = common.Report("C01", tier)
    if replay:
        return do_replay(replay)
    proof = common.prove(report, "C01", ["varconsts", "jis8", "pyvarhdr"], extra_targets=["Run/C01Run.vo"])
    ok, log = common.coq_make(["Run/C01Run.vo"])
    if not ok:
        report.violation({"kind": "broken-obligation", "obligation": "model Run/C01Run.vo does not build against the regenerated constants",
                          "detail": log[-1500:], "also": proof.get("broken")}, False, tag="modelbuild")
        return report.finish()
    rnd = common.rng("c01")
    cases = gen_cases(rnd, tier)
    obs, bad, stats = evaluate(cases, "c01")
    decide(report, "C01", cases, obs, bad, stats, proof, SPEC_CODES, MODEL_CODES)
    replay_known(report, "C01", KNOWN, evaluate)
    fill_coverage(report, cases, obs, stats,
                  "cases = (variable type, plain python value, trailing bytes): every scalar class x element counts "
                  "{0,1,2,3,5,17,254..257" + (", counts with 65535/65536/65537+ bytes" if tier == "thorough" else "") + "} x input forms, numeric boundaries of each width "
                  "(and just outside), all 256 byte values in text/binary, count-limited types at count-1/count/count+1, arrays at "
                  "length-byte boundaries, random nested record/array/dynamic types to depth 6; distinct = distinct Coq case literal; "
                  "non-trivial = value accepted and encoding longer than an empty item")
    return report.finish()


def do_replay(path):
    import json

    with open(path, encoding="utf-8") as handle:
        doc = json.load(handle)
    if "case" not in doc:
        print(json.dumps(doc, indent=1))
        return 0
    case = case_eval(doc["case"])
    obs, bad, stats = evaluate([case], "c01_replay")
    print("case:", doc["case"])
    print("implementation:", {k: (v.hex() if isinstance(v, bytes) else v) for k, v in obs[0][0].items()})
    print("codes (index, model, spec):", bad, "| model: 0 agree; spec: 0 holds, 1 outside domain, >=30 violated")
    return 1 if any(s >= 30 or m >= 10 for _, m, s in bad) else 0
