#!/bin/bash
# usage: harness/allchecks.sh quick|thorough   -> one line per property; exit 1 if any check failed
cd "$(dirname "$0")/.."
tier=${1:-quick}
bad=0
for c in C01 C02 C03 C04 C05 C06 C07 C08 C09 C10 C11 C12 C13 C14 C15 C16 C17 C18 C19 C20; do
  s=$(date +%s); out=$(./check $c --tier $tier 2>&1); rc=$?; e=$(date +%s)
  echo "$c tier=$tier rc=$rc $((e-s))s violations=$(echo "$out" | grep -c '^VIOLATION') known=$(echo "$out" | grep -c '^KNOWN-FINDING')"
  echo "$out" | grep '^VIOLATION' | head -3
  [ $rc -ne 0 ] && bad=1
done
exit $bad
