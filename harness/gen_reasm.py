"""Translator: Protocol._add_message_block (reassembly of received blocks) -> coq/Gen/Reasm.v (fail-closed).

The function is read statement by statement; recognised is exactly this shape (names of locals are free):

    first = getattr(block.header, "block", None) in (0, 1)              a block numbered 0 or 1 starts a message
    key = (block.header.<f1>, block.header.<f2>, ...)                    the fields that tell messages apart
    if key not in self._incomplete_messages or first:                    nothing kept under the key, or a new start:
        self._incomplete_messages[key] = self.message_type.from_block(block)      a new message from this block
    else:
        self._incomplete_messages[key].blocks.append(block)              else the block is appended
    message = self._incomplete_messages[key]
    if not message.complete: return None
    del self._incomplete_messages[key]                                   a completed message is forgotten
    return message

Emitted: the key fields in order, the block numbers that start a message, and that nothing else of the protocol object is read or written
(no other statement: no eviction, no clearing of other entries, no length limit).  Props/C16.v states that these are the ones Model/Frames.v's
`add_block` is written for (`msg_key`, `starts_message`).
"""
from __future__ import annotations

import ast
import os
import sys

from astutil import GEN_DIR, TranslationError, coq_str, find_class, find_method, parse, write_if_changed

REL = "secsgem/common/protocol.py"


def chain(node):
    out = []
    while isinstance(node, ast.Attribute):
        out.append(node.attr)
        node = node.value
    if isinstance(node, ast.Name):
        out.append(node.id)
    return ".".join(reversed(out))


def generate() -> str:
    fn = find_method(find_class(parse(REL), "Protocol", REL), "_add_message_block")
    what = f"{REL}: Protocol._add_message_block"
    if [a.arg for a in fn.args.args] != ["self", "block"]:
        raise TranslationError(f"{what}: signature")
    body = [s for s in fn.body if not (isinstance(s, ast.Expr) and isinstance(s.value, ast.Constant))]
    if len(body) != 7:
        raise TranslationError(f"{what}: {len(body)} statements, 7 expected")
    first, key, store, fetch, incomplete, forget, ret = body
    # 1. first = getattr(block.header, "block", None) in (0, 1)
    ok = (isinstance(first, ast.Assign) and isinstance(first.targets[0], ast.Name) and isinstance(first.value, ast.Compare) and len(first.value.ops) == 1
          and isinstance(first.value.ops[0], ast.In) and isinstance(first.value.left, ast.Call) and chain(first.value.left.func) == "getattr"
          and len(first.value.left.args) == 3 and chain(first.value.left.args[0]) == "block.header" and isinstance(first.value.left.args[1], ast.Constant)
          and first.value.left.args[1].value == "block" and isinstance(first.value.left.args[2], ast.Constant) and first.value.left.args[2].value is None
          and isinstance(first.value.comparators[0], ast.Tuple) and all(isinstance(e, ast.Constant) and type(e.value) is int for e in first.value.comparators[0].elts))
    if not ok:
        raise TranslationError(f"{what}: the test for a first block")
    first_name = first.targets[0].id
    starts = [e.value for e in first.value.comparators[0].elts]
    # 2. key = (block.header.f, ...)
    if not (isinstance(key, ast.Assign) and isinstance(key.targets[0], ast.Name) and isinstance(key.value, ast.Tuple)
            and all(chain(e).startswith("block.header.") and chain(e).count(".") == 2 for e in key.value.elts)):
        raise TranslationError(f"{what}: the key of _incomplete_messages")
    key_name = key.targets[0].id
    fields = [chain(e).split(".")[2] for e in key.value.elts]

    def entry(node):
        return isinstance(node, ast.Subscript) and chain(node.value) == "self._incomplete_messages" and isinstance(node.slice, ast.Name) and node.slice.id == key_name
    # 3. if key not in self._incomplete_messages or first: ... else: ...
    t = store.test if isinstance(store, ast.If) else None
    ok = (t is not None and isinstance(t, ast.BoolOp) and isinstance(t.op, ast.Or) and len(t.values) == 2
          and isinstance(t.values[0], ast.Compare) and isinstance(t.values[0].ops[0], ast.NotIn) and isinstance(t.values[0].left, ast.Name) and t.values[0].left.id == key_name
          and chain(t.values[0].comparators[0]) == "self._incomplete_messages" and isinstance(t.values[1], ast.Name) and t.values[1].id == first_name
          and len(store.body) == 1 and isinstance(store.body[0], ast.Assign) and entry(store.body[0].targets[0]) and isinstance(store.body[0].value, ast.Call)
          and chain(store.body[0].value.func) == "self.message_type.from_block" and len(store.body[0].value.args) == 1 and chain(store.body[0].value.args[0]) == "block"
          and len(store.orelse) == 1 and isinstance(store.orelse[0], ast.Expr) and isinstance(store.orelse[0].value, ast.Call)
          and isinstance(store.orelse[0].value.func, ast.Attribute) and store.orelse[0].value.func.attr == "append" and isinstance(store.orelse[0].value.func.value, ast.Attribute) and store.orelse[0].value.func.value.attr == "blocks"
          and entry(store.orelse[0].value.func.value.value) and len(store.orelse[0].value.args) == 1 and chain(store.orelse[0].value.args[0]) == "block")
    if not ok:
        raise TranslationError(f"{what}: the start-or-append step")
    # 4.-7.
    ok = (isinstance(fetch, ast.Assign) and isinstance(fetch.targets[0], ast.Name) and entry(fetch.value)
          and isinstance(incomplete, ast.If) and not incomplete.orelse and isinstance(incomplete.test, ast.UnaryOp) and isinstance(incomplete.test.op, ast.Not)
          and chain(incomplete.test.operand) == fetch.targets[0].id + ".complete" and len(incomplete.body) == 1 and isinstance(incomplete.body[0], ast.Return)
          and isinstance(incomplete.body[0].value, ast.Constant) and incomplete.body[0].value.value is None
          and isinstance(forget, ast.Delete) and len(forget.targets) == 1 and entry(forget.targets[0])
          and isinstance(ret, ast.Return) and isinstance(ret.value, ast.Name) and ret.value.id == fetch.targets[0].id)
    if not ok:
        raise TranslationError(f"{what}: the completion step")
    return "\n".join(["(* GENERATED by harness/gen_reasm.py from Protocol._add_message_block - do not edit. *)", "From SG Require Import Base.Prelude.", "",
                      "(* the header fields that tell the messages under reassembly apart, in the order of the key tuple *)",
                      "Definition reasm_key_fields : list string := [" + "; ".join(coq_str(f) for f in fields) + "].",
                      "(* the block numbers that start a message (whatever is kept under the key is dropped) *)",
                      "Definition reasm_start_blocks : list Z := [" + "; ".join(f"({v})%Z" for v in starts) + "].",
                      "(* start-or-append, then complete-and-forget; no other statement (no eviction, no limit, no other entry touched) *)",
                      "Definition reasm_plain : bool := true.", ""])


if __name__ == "__main__":
    try:
        changed = write_if_changed(os.path.join(GEN_DIR, "Reasm.v"), generate())
        print(f"gen_reasm: {'updated' if changed else 'unchanged'}")
    except TranslationError as exc:
        print(f"TRANSLATION-ERROR gen_reasm: {exc}")
        sys.exit(3)
