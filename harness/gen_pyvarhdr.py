"""Translator entry point: see pyfuns.py (generate_var -> coq/Gen/PyVarHdr.v)."""
import pyfuns

if __name__ == "__main__":
    pyfuns.main("gen_pyvarhdr", pyfuns.generate_var, "PyVarHdr.v")
