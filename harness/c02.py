"""C02 — every valid SEMI E5 item encoding is decoded to the value it denotes."""
from __future__ import annotations

import struct

import c01
import coqlit as L
import common
import valrig

CODE_L, CODE_BOOL, CODE_F4, CODE_F8 = 0, 9, 36, 32


def parse(bs, pos=0):
    """Harness-side E5 reader (generator utility only): returns (tree, next_pos); tree = (code, payload|children)."""
    fb = bs[pos]
    code, k = fb >> 2, fb & 3
    n = int.from_bytes(bs[pos + 1 : pos + 1 + k], "big")
    pos += 1 + k
    if code == CODE_L:
        kids = []
        for _ in range(n):
            kid, pos = parse(bs, pos)
            kids.append(kid)
        return (code, kids), pos
    return (code, bytes(bs[pos : pos + n])), pos + n


F4_BITS = [0x7F7FFFFF, 0xFF7FFFFF, 0x00000001, 0x80000001, 0x007FFFFF, 0x00800000, 0x00000000, 0x80000000, 0x3F800000, 0x7F7FFFEE, 0x33800000]
F8_BITS = [0x7FEFFFFFFFFFFFFF, 0xFFEFFFFFFFFFFFFF, 1, 0x8000000000000001, 0x000FFFFFFFFFFFFF, 0x0010000000000000, 0, 0x8000000000000000,
           0x47EFFFFFE0000000, 0x47EFFFFFF0000000, 0x36A0000000000000]


def emit(tree, rnd, weird=0.5):
    code, body = tree
    if code == CODE_L:
        n = len(body)
        payload = b"".join(emit(kid, rnd, weird) for kid in body)
    else:
        payload = body
        if rnd.random() < weird:
            if code == CODE_BOOL and payload:
                payload = bytes(b if b == 0 else rnd.choice([1, 2, 0x80, 0xFF]) for b in payload)
            elif code == CODE_F4 and len(payload) >= 4:
                i = rnd.randrange(len(payload) // 4)
                payload = payload[: 4 * i] + rnd.choice(F4_BITS).to_bytes(4, "big") + payload[4 * i + 4 :]
            elif code == CODE_F8 and len(payload) >= 8:
                i = rnd.randrange(len(payload) // 8)
                payload = payload[: 8 * i] + rnd.choice(F8_BITS).to_bytes(8, "big") + payload[8 * i + 8 :]
        n = len(payload)
    kmin = 1 if n <= 0xFF else 2 if n <= 0xFFFF else 3
    k = rnd.choice([kmin, kmin, 3, rnd.randint(kmin, 3)])
    return bytes([(code << 2) | k]) + n.to_bytes(k, "big") + payload


def mutate_invalid(bs, rnd):
    bs = bytearray(bs)
    c = rnd.random()
    if not bs:
        return bytes(bs)
    if c < 0.3:
        return bytes(bs[: rnd.randrange(len(bs))])  # truncated
    if c < 0.6:
        bs[rnd.randrange(len(bs))] = rnd.randint(0, 255)
        return bytes(bs)
    if c < 0.8:
        bs[0] = bs[0] & 0xFC  # zero length bytes
        return bytes(bs)
    return bytes(rnd.randint(0, 255) for _ in range(rnd.randint(1, 12)))


def gen_cases(rnd, tier):
    cases = []
    base = c01.gen_cases(rnd, "quick")
    if tier == "quick":
        base = base[::2]
    for t, p, _tail in base:
        if valrig.has_nan(p):
            continue
        o = valrig.observe(t, p, b"")
        if o["enc"] is None:
            continue
        tree, _ = parse(o["enc"])
        bs = emit(tree, rnd)
        tail = bytes(rnd.randint(0, 255) for _ in range(rnd.choice([0, 0, 0, 2])))
        cases.append((t, bs + tail))
        # the same bytes offered to the catch-all types
        r = rnd.random()
        if r < 0.25:
            cases.append((("any",), bs))
        elif r < 0.35 and t[0] == "scal" and t[1] != "JIS8":
            cases.append((("dyn", [t[1]] + rnd.sample(["U1", "String", "F8", "Binary"], 2), -1), bs))
        elif r < 0.40:
            cases.append((("dyn", [], -1), bs))
        if rnd.random() < 0.15:
            cases.append((t, mutate_invalid(bs, rnd)))
    # the empty item of every scalar class (decoded into a variable that already holds a value: see observe)
    for kind, code in (("Binary", 0o10), ("Boolean", 0o11), ("String", 0o20), ("JIS8", 0o21), ("U1", 0o51), ("U2", 0o52), ("U4", 0o54), ("U8", 0o50),
                       ("I1", 0o31), ("I2", 0o32), ("I4", 0o34), ("I8", 0o30), ("F4", 0o44), ("F8", 0o40)):
        cases.append((("scal", kind, -1), bytes([(code << 2) | 1, 0])))
    # a J item at the top and inside lists (one, two levels down, next to other items) offered to the catch-all types
    j_item = bytes([0x45, 3, 0x61, 0xB1, 0x7E])
    for raw in (j_item, bytes([0x01, 1]) + j_item, bytes([0x01, 2]) + bytes([0xA5, 1, 7]) + j_item, bytes([0x01, 1, 0x01, 2]) + j_item + bytes([0x41, 1, 0x62]), bytes([0x01, 1, 0x45, 0])):
        for t in (("any",), ("dyn", [], -1)):
            cases.append((t, raw))
    # every finite float corner through every receiving type
    for bits in F4_BITS:
        raw = bytes([0x91, 4]) + bits.to_bytes(4, "big")
        for t in (("scal", "F4", -1), ("any",), ("dyn", ["F4", "F8"], -1), ("arr", ("scal", "F4", -1), -1)):
            cases.append((t, raw if t[0] != "arr" else bytes([0x01, 2]) + raw + raw))
    for bits in F8_BITS:
        raw = bytes([0x81, 8]) + bits.to_bytes(8, "big")
        for t in (("scal", "F8", -1), ("any",), ("dyn", ["F4", "F8"], -1)):
            cases.append((t, raw))
    # integer extremes with all three length-byte counts
    for kind, (lo, hi) in c01.NUM_RANGE.items():
        code = {"U1": 41, "U2": 42, "U4": 44, "U8": 40, "I1": 25, "I2": 26, "I4": 28, "I8": 24}[kind]
        w = {"1": 1, "2": 2, "4": 4, "8": 8}[kind[1]]
        for v in (lo, hi, 0):
            payload = (v % (1 << (8 * w))).to_bytes(w, "big")
            for k in (1, 2, 3):
                raw = bytes([(code << 2) | k]) + len(payload).to_bytes(k, "big") + payload
                cases.append((("scal", kind, -1), raw))
                cases.append((("any",), raw))
    return cases


HEADER = "From SG Require Import Base.Prelude Base.Kinds Model.Secs2 Run.C01Run Run.C02Run.\nOpen Scope N_scope.\n"


def observe(t, bs):
    out = {"ok": False, "val": "VNone", "end": 0, "reenc": None, "err": None}
    try:
        var = valrig.build(t)
        # every second time the receiving variable is not fresh: it holds a value already, which the decoded one replaces entirely
        # (also when the decoded item is empty)
        if t[0] == "scal" and ((len(bs) + sum(bs[:8])) % 2 == 0 or (len(bs) >= 2 and bs[1] == 0 and len(bs) == 2)):
            try:
                var.set({"Binary": b"\x07", "Boolean": True, "String": "x", "JIS8": "x"}.get(t[1], 1))
                out["preloaded"] = True
            except Exception:  # noqa: BLE001
                var = valrig.build(t)
        end = var.decode(bytes(bs))
        out["val"] = valrig.snapshot(var)
        out["end"] = end
        out["ok"] = True
    except valrig.Unobservable:
        raise
    except Exception as exc:  # noqa: BLE001
        out["err"] = f"decode: {type(exc).__name__}: {exc}"[:200]
        return out
    try:
        out["reenc"] = var.encode()
    except Exception as exc:  # noqa: BLE001
        out["err"] = f"encode: {type(exc).__name__}: {exc}"[:200]
    return out


def literal(t, bs, o):
    return "{| d_ty := %s; d_bytes := %s; d_ok := %s; d_val := %s; d_end := %d; d_reenc := %s |}" % (
        L.ty(t), L.nlist(bs), L.bool_(o["ok"]), o["val"], o["end"], L.opt(o["reenc"], L.nlist))


def evaluate(cases, prefix, shard=400, jobs=8):
    obs = []
    for t, bs in cases:
        try:
            o = observe(t, bs)
            obs.append((o, literal(t, bs, o)))
        except valrig.Unobservable:
            obs.append(None)
    idx = [i for i, x in enumerate(obs) if x is not None]
    shards, maps = [], []
    for s in range(0, len(idx), shard):
        part = idx[s : s + shard]
        maps.append(part)
        shards.append("Definition cs : list dobs := [\n" + ";\n".join(obs[i][1] for i in part) + "\n].\nEval vm_compute in run_dcases cs.\n")
    outs = common.coq_eval_shards(prefix, HEADER, shards, jobs=jobs)
    bad, skipped, checked, errors = [], 0, 0, []
    for part, (ok, text) in zip(maps, outs):
        parsed = common.parse_triples(text) if ok else None
        if parsed is None:
            errors.append(text[-800:])
            continue
        b, sk, ch = parsed
        skipped += sk
        checked += ch
        bad.extend((part[i], m, s) for i, m, s in b)
    return obs, bad, {"skipped_unmodelled": skipped, "spec_checked": checked, "eval_errors": errors, "observed": len(idx)}


SPEC_CODES = {
    30: "the decoded value could not be re-encoded",
    31: "re-encoding the decoded value is not the canonical E5 encoding of the item",
    32: "a valid E5 encoding admitted by the receiving type was rejected",
    33: "decode did not consume exactly the item",
    34: "decoded value is not the value the encoding denotes",
}


def case_repr(case):
    return repr((case[0], bytes(case[1])))


def run(tier, replay=None):
    report = common.Report("C02", tier)
    if replay:
        return do_replay(replay)
    proof = common.prove(report, "C02", ["varconsts", "jis8", "pyvarhdr"], extra_targets=["Run/C02Run.vo"])
    ok, log = common.coq_make(["Run/C02Run.vo"])
    if not ok:
        report.violation({"kind": "broken-obligation", "obligation": "model Run/C02Run.vo does not build against the regenerated constants",
                          "detail": log[-1500:], "also": proof.get("broken")}, False, tag="modelbuild")
        return report.finish()
    rnd = common.rng("c02")
    cases = gen_cases(rnd, tier)
    obs, bad, stats = evaluate(cases, "c02")
    # reuse C01's decision logic with this property's vocabulary
    shim_cases = [(t, bs, b"") for t, bs in cases]
    shim_obs = [None if o is None else ({"val": o[0]["val"], "ok": o[0]["ok"], "end": o[0]["end"], "reenc": o[0]["reenc"], "err": o[0]["err"]}, o[1]) for o in obs]
    c01.decide(report, "C02", shim_cases, shim_obs, bad, stats, proof, SPEC_CODES, c01.MODEL_CODES)
    # "arbitrarily nested lists": <U1 7> inside 500 one-element lists is a valid E5 item of 1003 bytes
    raw, res = common.nested_bytes(500), {"depth": 500, "bytes": 1003}
    try:
        var = valrig.build(("any",))
        end = var.decode(raw)
        res["decode"] = "ok" if end == len(raw) and var.encode() == raw else "wrong result"
    except RecursionError:
        res["decode"] = "RecursionError"
    common.known_or_violation(report, "C02", "C02-deep-nesting", res["decode"] == "ok", res, "a valid E5 item (deeply nested lists) was not decoded", "deep")
    import hashlib
    distinct = set()
    kinds = {}
    outcome = {"decoded": 0, "rejected": 0}
    for (t, bs), o in zip(cases, obs):
        if o is None:
            continue
        kinds[t[1] if t[0] == "scal" else t[0]] = kinds.get(t[1] if t[0] == "scal" else t[0], 0) + 1
        outcome["decoded" if o[0]["ok"] else "rejected"] += 1
        if o[0]["ok"] and len(bs) > 2:
            distinct.add(hashlib.sha256(o[1].encode()).hexdigest())
    cov = report.coverage
    cov["evaluations"] = stats["observed"]
    cov["distinct_nontrivial"] = len(distinct)
    cov["rule"] = ("cases = (receiving type, byte string): canonical encodings of C01's generated values re-laid-out with a random number (minimal..3) of "
                   "length bytes at every nesting level, BOOLEAN bytes replaced by arbitrary non-zero bytes, float slots replaced by FLT_MAX/DBL_MAX/"
                   "subnormals/signed zeros, offered to the fixed type, to Dynamic with the code allowed, to Dynamic() and to ANYVALUE; integer extremes "
                   "with 1,2,3 length bytes; plus truncated/corrupted streams (compared with the model only); non-trivial = decoded and longer than an empty item")
    cov["correspondence"] = {k: v for k, v in stats.items() if k != "eval_errors"}
    cov["distribution"] = {"receiving_type": kinds, "outcome": outcome}
    cov["samples"] = [case_repr(c)[:300] for c in cases[:: max(1, len(cases) // 8)][:8]]
    return report.finish()


def do_replay(path):
    import json

    with open(path, encoding="utf-8") as handle:
        doc = json.load(handle)
    if "case" not in doc:
        print(json.dumps(doc, indent=1))
        return 0
    t, bs, _ = c01.case_eval(doc["case"])
    obs, bad, stats = evaluate([(t, bs)], "c02_replay")
    print("case:", doc["case"])
    print("implementation:", obs[0][0])
    print("codes (index, model, spec):", bad)
    return 1 if bad else 0
