#!/usr/bin/env python3
"""Print the table of seeded changes (seeded/*/meta.json) for DESIGN.md section 0.7; with --write, put it there."""
import glob
import json
import os
import re
import sys

rows = []
for path in sorted(glob.glob("/verif/seeded/*/meta.json"), key=lambda p: (p.split("/")[-2].split("-")[0], int(p.split("/")[-2].split("-")[1]))):
    m = json.load(open(path))
    sid = os.path.basename(os.path.dirname(path))
    what = " ".join(m.get("needs", "").split())
    what = "".join(ch if ch.isprintable() else "\\x%02x" % ord(ch) for ch in what)
    what = re.sub(r"^(File|Files|Change|change)s?: ?", "", what)
    rows.append((sid, "yes" if m.get("confirmed") else "NO", ", ".join(m.get("detected_by") or []) or "— (see text)", what[:150].replace("|", "/")))
lines = ["| seed | confirmed (tests pass, demo fails) | detected by | change |", "|------|------|------|------|"]
lines += [f"| {a} | {b} | {c} | {d} |" for a, b, c, d in rows]
lines.append("")
lines.append(f"{len(rows)} seeded changes, {sum(1 for r in rows if not r[2].startswith('—'))} detected.")
table = "\n".join(lines)
if "--write" in sys.argv:
    p = "/verif/DESIGN.md"
    s = open(p).read()
    if "SEED_TABLE" in s:
        s = s.replace("SEED_TABLE", "<!-- seed table begin -->\n" + table + "\n<!-- seed table end -->")
    else:
        s = re.sub(r"<!-- seed table begin -->.*?<!-- seed table end -->", lambda _m: "<!-- seed table begin -->\n" + table + "\n<!-- seed table end -->", s, flags=re.S)
    open(p, "w").write(s)
else:
    print(table)
