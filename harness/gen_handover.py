"""Translator: how a received data message is handed over -> coq/Gen/HandOver.v (fail-closed).

Reads, in secsgem/common/protocol.py,
  * Protocol._deliver_message: the waiter is looked up ONCE (`self._response_queues.get(...) if self._is_reply_to_open_transaction(message) else None`),
    then an if / elif / else chain over `waiter is not None` and `direct` whose branches put the message into the waiter's queue, queue its blocks for
    the dispatcher thread, or fire `message_received`.  The chain is translated branch by branch into the function
        deliver_action (cand waiting direct : bool) : handover_action
    (cand = the message can be the reply to the open transaction, waiting = its requester's waiter is still registered).
  * Protocol._dispatch_block: the `direct` flag reaches _on_connection_message_received.
and, in secsgem/hsms/protocol.py and secsgem/secsi/protocol.py,
  * _process_received_data hands a block over itself only behind `self._is_reply_to_open_transaction(response)`, with direct=True, and queues every
    other block (`self._thread.queue_block`);
  * _on_connection_message_received ends in `self._deliver_message(..., direct)` and fires `message_received` nowhere itself;
  * (HSMS) the not-selected gate sends no Reject.req from the receiver thread: `if direct:` it queues the block and returns.
Model/HandOver.v is written over `deliver_action`; Proofs/HandOverProofs.v needs of it exactly what Props/C06.v states.
"""
from __future__ import annotations

import ast
import os
import sys

from astutil import GEN_DIR, TranslationError, find_class, find_method, parse, write_if_changed

COMMON = "secsgem/common/protocol.py"


def attr_chain(node):
    out = []
    while isinstance(node, ast.Attribute):
        out.append(node.attr)
        node = node.value
    if isinstance(node, ast.Name):
        out.append(node.id)
    return ".".join(reversed(out))


def is_call(node, chain):
    return isinstance(node, ast.Call) and attr_chain(node.func) == chain


def branch_action(stmts, what):
    """one branch of the chain -> ToRequester | ToQueue | ToApp"""
    body = [s for s in stmts if not (isinstance(s, ast.Expr) and isinstance(s.value, ast.Constant))]
    if len(body) != 1:
        raise TranslationError(f"{what}: a branch with {len(body)} statements")
    st = body[0]
    if isinstance(st, ast.Expr) and is_call(st.value, "waiter.put_nowait") and len(st.value.args) == 1 and isinstance(st.value.args[0], ast.Name) and st.value.args[0].id == "message":
        return "ToRequester"
    if (isinstance(st, ast.For) and isinstance(st.target, ast.Name) and attr_chain(st.iter) == "message.blocks" and len(st.body) == 1 and not st.orelse
            and isinstance(st.body[0], ast.Expr) and is_call(st.body[0].value, "self._thread.queue_block") and len(st.body[0].value.args) == 2
            and isinstance(st.body[0].value.args[1], ast.Name) and st.body[0].value.args[1].id == st.target.id):
        return "ToQueue"
    if isinstance(st, ast.Expr) and is_call(st.value, "self.events.fire") and st.value.args and isinstance(st.value.args[0], ast.Constant) and st.value.args[0].value == "message_received":
        return "ToApp"
    raise TranslationError(f"{what}: branch not understood: {ast.dump(st)[:120]}")


def cond(node, what):
    if isinstance(node, ast.Name) and node.id == "direct":
        return "direct"
    if (isinstance(node, ast.Compare) and isinstance(node.left, ast.Name) and node.left.id == "waiter" and len(node.ops) == 1
            and isinstance(node.comparators[0], ast.Constant) and node.comparators[0].value is None):
        if isinstance(node.ops[0], ast.IsNot):
            return "waiter"
        if isinstance(node.ops[0], ast.Is):
            return "(negb waiter)"
    if isinstance(node, ast.UnaryOp) and isinstance(node.op, ast.Not):
        return f"(negb {cond(node.operand, what)})"
    if isinstance(node, ast.BoolOp):
        return "(" + (" && " if isinstance(node.op, ast.And) else " || ").join(cond(v, what) for v in node.values) + ")"
    raise TranslationError(f"{what}: condition not understood: {ast.dump(node)[:120]}")


def chain(stmts, what):
    body = [s for s in stmts if not (isinstance(s, ast.Expr) and isinstance(s.value, ast.Constant))]
    if len(body) == 1 and isinstance(body[0], ast.If):
        st = body[0]
        if not st.orelse:
            raise TranslationError(f"{what}: a message can fall through the chain")
        return f"if {cond(st.test, what)} then {chain(st.body, what)} else {chain(st.orelse, what)}"
    return branch_action(stmts, what)


def deliver_function():
    cls = find_class(parse(COMMON), "Protocol", COMMON)
    fn = find_method(cls, "_deliver_message")
    what = f"{COMMON}:Protocol._deliver_message"
    if [a.arg for a in fn.args.args] != ["self", "source", "message", "direct"]:
        raise TranslationError(f"{what}: signature")
    body = [s for s in fn.body if not (isinstance(s, ast.Expr) and isinstance(s.value, ast.Constant))]
    if len(body) != 2:
        raise TranslationError(f"{what}: two statements expected (the look-up, the chain)")
    look = body[0]
    ok = (isinstance(look, ast.Assign) and len(look.targets) == 1 and isinstance(look.targets[0], ast.Name) and look.targets[0].id == "waiter"
          and isinstance(look.value, ast.IfExp) and is_call(look.value.test, "self._is_reply_to_open_transaction") and len(look.value.test.args) == 1
          and isinstance(look.value.test.args[0], ast.Name) and look.value.test.args[0].id == "message"
          and is_call(look.value.body, "self._response_queues.get") and len(look.value.body.args) == 1 and attr_chain(look.value.body.args[0]) == "message.header.system"
          and isinstance(look.value.orelse, ast.Constant) and look.value.orelse.value is None)
    if not ok:
        raise TranslationError(f"{what}: the waiter is not looked up once by `self._response_queues.get(message.header.system) if self._is_reply_to_open_transaction(message) else None`")
    if sum(1 for n in ast.walk(fn) if isinstance(n, ast.Attribute) and n.attr == "_response_queues") != 1:
        raise TranslationError(f"{what}: _response_queues is read more than once")
    return chain([body[1]], what)


def dispatch_passes_direct():
    cls = find_class(parse(COMMON), "Protocol", COMMON)
    fn = find_method(cls, "_dispatch_block")
    what = f"{COMMON}:Protocol._dispatch_block"
    if [a.arg for a in fn.args.args][-1] != "direct":
        raise TranslationError(f"{what}: no `direct` parameter")
    calls = [n for n in ast.walk(fn) if is_call(n, "self._on_connection_message_received")]
    with_flag = [c for c in calls if any(k.arg == "direct" and isinstance(k.value, ast.Constant) and k.value.value is True for k in c.keywords)]
    if not with_flag:
        raise TranslationError(f"{what}: direct=True never reaches _on_connection_message_received")
    for c in with_flag:
        # the call with direct=True must sit under `if direct:`
        parents = [n for n in ast.walk(fn) if isinstance(n, ast.If) and isinstance(n.test, ast.Name) and n.test.id == "direct" and any(c is x for b in n.body for x in ast.walk(b))]
        if not parents:
            raise TranslationError(f"{what}: direct=True is passed on although the caller did not say so")


def protocol_shape(rel, clsname, gate):
    cls = find_class(parse(rel), clsname, rel)
    recv = find_method(cls, "_process_received_data")
    direct_calls = [n for n in ast.walk(recv) if is_call(n, "self._dispatch_block")]
    if len(direct_calls) != 1 or not any(k.arg == "direct" and isinstance(k.value, ast.Constant) and k.value.value is True for k in direct_calls[0].keywords):
        raise TranslationError(f"{rel}: {clsname}._process_received_data: exactly one direct hand-over with direct=True expected")
    guarded = False
    for n in ast.walk(recv):
        if isinstance(n, ast.If) and any(direct_calls[0] is x for b in n.body for x in ast.walk(b)):
            conds = n.test.values if isinstance(n.test, ast.BoolOp) and isinstance(n.test.op, ast.And) else [n.test]
            if any(is_call(c, "self._is_reply_to_open_transaction") for c in conds):
                guarded = True
    if not guarded:
        raise TranslationError(f"{rel}: {clsname}._process_received_data: the direct hand-over is not guarded by _is_reply_to_open_transaction")
    if not [n for n in ast.walk(recv) if is_call(n, "self._thread.queue_block")]:
        raise TranslationError(f"{rel}: {clsname}._process_received_data: other blocks are not queued for the dispatcher thread")
    on = find_method(cls, "_on_connection_message_received")
    if [a.arg for a in on.args.args][-1] != "direct":
        raise TranslationError(f"{rel}: {clsname}._on_connection_message_received: no `direct` parameter")
    if any(is_call(n, "self.events.fire") and n.args and isinstance(n.args[0], ast.Constant) and n.args[0].value == "message_received" for n in ast.walk(on)):
        raise TranslationError(f"{rel}: {clsname}._on_connection_message_received fires message_received itself")
    delivers = [n for n in ast.walk(on) if is_call(n, "self._deliver_message")]
    if len(delivers) != 1 or not (len(delivers[0].args) == 3 and isinstance(delivers[0].args[2], ast.Name) and delivers[0].args[2].id == "direct"):
        raise TranslationError(f"{rel}: {clsname}._on_connection_message_received does not end in self._deliver_message(..., direct)")
    if not gate:
        return True
    # the not-selected gate: under `if direct:` the block is queued and the function returns, before any send_message
    for n in ast.walk(on):
        if isinstance(n, ast.If) and isinstance(n.test, ast.Compare) and "CONNECTED_SELECTED" in ast.dump(n.test):
            first = [s for s in n.body if not (isinstance(s, ast.Expr) and isinstance(s.value, ast.Constant))][0]
            if (isinstance(first, ast.If) and isinstance(first.test, ast.Name) and first.test.id == "direct" and isinstance(first.body[-1], ast.Return)
                    and any(is_call(x, "self._thread.queue_block") for s in first.body for x in ast.walk(s))
                    and not any(is_call(x, "self.send_message") for s in first.body for x in ast.walk(s))):
                return True
    raise TranslationError(f"{rel}: {clsname}._on_connection_message_received: the receiver thread can reach send_message(Reject.req) on the direct path")


def generate() -> str:
    body = deliver_function()
    dispatch_passes_direct()
    protocol_shape("secsgem/hsms/protocol.py", "HsmsProtocol", True)
    protocol_shape("secsgem/secsi/protocol.py", "SecsIProtocol", False)
    return "\n".join([
        "(* GENERATED by harness/gen_handover.py from Protocol._deliver_message (and the shape of the two receive paths) - do not edit. *)",
        "From SG Require Import Base.Prelude Base.PyRt.", "",
        "(* cand: the message can be the reply to the open transaction; waiting: its requester's waiter is still registered;",
        "   direct: the receiver thread hands the message over itself (else: the dispatcher thread) *)",
        "Definition deliver_action (cand waiting direct : bool) : handover_action :=",
        "  let waiter := cand && waiting in",
        f"  {body}.", ""])


if __name__ == "__main__":
    try:
        changed = write_if_changed(os.path.join(GEN_DIR, "HandOver.v"), generate())
        print(f"gen_handover: {'updated' if changed else 'unchanged'}")
    except TranslationError as exc:
        print(f"TRANSLATION-ERROR gen_handover: {exc}")
        sys.exit(3)
